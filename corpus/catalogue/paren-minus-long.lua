-- the same shapes, long enough to hang at moderate widths
local aaaaaaaaaaaaaaaa = -(-xxxxxxxxxxxxxxxxxxxxxxxx) + yyyyyyyyyyyyyyyyyyyyyyyyyyyyyyyyyyyyyyyy + zzzzzzzzzzzzzzzzzzzzzzzzzzzzzzzzzzzzzzzz
local bbbbbbbbbbbbbbbb = (-xxxxxxxxxxxxxxxxxxxxxxxx) ^ yyyyyyyyyyyyyyyyyyyyyyyyyyyyyyyyyyyyyyyy ^ zzzzzzzzzzzzzzzzzzzzzzzzzzzzzzzzzzzzzzzz
local cccccccccccccccc = ((-xxxxxxxxxxxxxxxxxxxxxxxx)) ^ yyyyyyyyyyyyyyyyyyyyyyyyyyyyyyyyyyyyyyyy + zzzzzzzzzzzzzzzzzzzzzzzzzzzzzzzzzzzzzzzz
local dddddddddddddddd = aaaaaaaaaaaaaaaaaaaaaaaaaaaa + (-bbbbbbbbbbbbbbbbbbbbbbbbbbbbb --[[c]]) ^ ccccccccccccccccccccccccccccccccc
local eeeeeeeeeeeeeeee = aaaaaaaaaaaaaaaaaaaaaaaaaaaa - -((-bbbbbbbbbbbbbbbbbbbbbbbbbbbbb)) - -(-ccccccccccccccccccccccccccccccccc)
local ffffffffffffffff = (aaaaaaaaaaaaaaaaaaaaaaaaaaaa .. bbbbbbbbbbbbbbbbbbbbbbbbbbbbb) .. (ccccccccccccccccccccccccccccccccc .. dddddddddddddddddddddd)
local gggggggggggggggg = (aaaaaaaaaaaaaaaaaaaaaaaaaaaa - bbbbbbbbbbbbbbbbbbbbbbbbbbbbb) - (ccccccccccccccccccccccccccccccccc - dddddddddddddddddddddd)
if (-xxxxxxxxxxxxxxxxxxxxxxxx) ^ yyyyyyyyyyyyyyyyyyyyyyyyyyyyyyyyyyyyyyyy > zzzzzzzzzzzzzzzzzzzzzzzzzzzzzzzzzzzzzzzz and (not aaaaaaaaaaaaaaaaaaaaaaaaaaaa) == bbbbbbbbbbbbbbbbbbbbbbbbbbbbb then
	return (ffffffffffffffffffffffffffffffffff(aaaaaaaaaaaaaaaaaaaaaaaaaaaa, bbbbbbbbbbbbbbbbbbbbbbbbbbbbb, ccccccccccccccccccccccccccccccccc))
end
call(aaaaaaaaaaaaaaaaaaaaaaaaaaaa, bbbbbbbbbbbbbbbbbbbbbbbbbbbbb, (ccccccccccccccccccccccccccccccccc(dddddddddddddddddddddd)))
