-- unary minus / parenthesis shapes
local a = -(-x)
local b = - -x
local c = -((-x))
local d = -(((-x)))
local e = a - -x
local f = a - -(-x)
local g = a - -((-x))
local h = (-x) ^ y
local i = ((-x)) ^ y
local j = (((-x))) ^ y
local k = (not x) ^ y
local l = (#x) ^ y
local m = -x ^ y
local n = (-x) ^ (-y) ^ (-z)
local o = 2 ^ -x
local p = (a .. b) .. c
local q = a .. (b .. c)
local r = (a ^ b) ^ c
local s = a ^ (b ^ c)
local t = (a - b) - c
local u = a - (b - c)
local v = (a or b) and c
local w = not (a == b)
local x = (not a) == b
local y = ((f()))
local z = (...)
f((g()))
f(a, (g()))
return (f()), ((g())), ((...))
