#!/usr/bin/env lua   
-- crlf file
local t = {
	1, -- one
	2, --[[ two
	more ]]
}
if t then
	print(t) -- p
end
