-- statements whose successor starts with a parenthesis
local a = f;
(g or h)()
a = b;
(g or h).x = 1
f();
(g or h)()
repeat x = x + 1 until x;
(g or h)()
local b = 1; local c = 2;
do local d = 3; end;
return a;
