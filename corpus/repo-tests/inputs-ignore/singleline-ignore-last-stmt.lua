-- stylua: ignore
return      "hi"
