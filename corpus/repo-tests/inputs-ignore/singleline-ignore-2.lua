local foo     =      bar
-- stylua: ignore
local bar   =     baz
local bar   =     baz
