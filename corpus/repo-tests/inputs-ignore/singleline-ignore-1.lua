local foo     =      bar
-- stylua: ignore
local bar   =     baz
