local foo     =      bar
-- stylua: ignore start
local bar   =     baz
local bar   =     baz
-- stylua: ignore end
local bar   =     baz
