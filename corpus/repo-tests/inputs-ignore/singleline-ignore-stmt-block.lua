local   x     = 1
-- stylua: ignore
function foo   ()
    return    x +    1
end
