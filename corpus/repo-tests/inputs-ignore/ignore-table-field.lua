local foo = {
	-- stylua: ignore
	x   =    2,
	y  =  3,
	z        =   " he "  ,
}

local bar = {
	x   =    2,
	-- stylua: ignore
	y  =  3,
	z        =   " he "  ,
}

local baz = {
	x   =    2,
	y  =  3,
	-- stylua: ignore
	z        =   " he "  ,
}
