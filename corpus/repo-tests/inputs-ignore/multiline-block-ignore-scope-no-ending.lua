local foo     =      bar
do
    -- stylua: ignore start
    local bar   =     baz
    local bar   =     baz
end
local bar   =     baz
