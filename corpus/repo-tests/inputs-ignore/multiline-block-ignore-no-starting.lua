local foo     =      bar
local bar   =     baz
local bar   =     baz
-- stylua: ignore end
local bar   =     baz
