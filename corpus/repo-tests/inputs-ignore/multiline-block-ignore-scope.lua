local foo     =      bar
do
    -- stylua: ignore start
    local bar   =     baz
    -- stylua: ignore end
    local bar   =     baz
end
local bar   =     baz
