-- https://github.com/JohnnyMorganz/StyLua/issues/705

require("foo").bar {
	-- stylua: ignore start
	baz      =0,
	foo   =   2,
	-- stylua: ignore end
	bar        =     1234
}
