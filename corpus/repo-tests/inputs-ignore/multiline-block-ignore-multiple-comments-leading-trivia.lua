--stylua: ignore start
local a   =   1
--stylua: ignore end

--stylua: ignore start
local b   =   2
--stylua: ignore end

--stylua: ignore start
local c   =   3
--stylua: ignore end

-- Some very large comment

--stylua: ignore start
local d   =   4
--stylua: ignore end
