-- http://lua-users.org/wiki/GotoStatement
::redo:: for x=1,10 do for y=1,10 do
	if not f(x,y) then goto continue end
	if not g(x,y) then goto skip end
	if not h(x,y) then goto redo end
	::continue::
  end end ::skip::