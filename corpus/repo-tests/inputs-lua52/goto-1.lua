for i=1,10 do if i == 1 then goto skip end end
::skip::