local a <attribute_with_random_name> = 1
