local a <const> = 5
local d <close>
local e <const>, f <close> = 1, 2
local g <const>, h <close>
local i <const>, j, k <close>
