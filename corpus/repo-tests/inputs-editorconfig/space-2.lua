local foo = {
	a = 1,
}

local bar = ""
