type MyCallbackType = (cost: number, name: string) -> string

local cb: (amount: number) -> number
local function foo(cb: (name: string) -> ())
end

local function bar(x: (number)?): (baz: string) -> string
end

local function bar(x: (number)?): (baz: string) -> ((names: Array<string>) -> ...any)
end