-- Very important loop here
while true do
	continue
end

continue()
local continue = 4
