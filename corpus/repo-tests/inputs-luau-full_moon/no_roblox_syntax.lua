-- Taken from https://raw.githubusercontent.com/Kampfkarren/Roblox/master/Modules/LineOfSight.lua
local ReplicatedStorage = game:GetService("ReplicatedStorage")
local RunService = game:GetService("RunService")

local Raycast = require(ReplicatedStorage.Modules.Raycast)

local DEBUG = true
DEBUG = DEBUG and RunService:IsStudio()

local debug

if DEBUG then
	function debug(...)
		print("[LineOfSight]", ...)
	end
else
	function debug()
	end
end

return function(origin, character, range, ignoreIf, blacklist)
	if typeof(origin) == "Instance" then
		if origin.Position:FuzzyEq(character.PrimaryPart.Position) then
			debug("ORIGIN WAS CHARACTER")
			return origin, origin.Position
		end

		origin = origin.Position
	end

	blacklist = blacklist or {}

	local hit, point do
		while true do
			hit, point = Raycast(Ray.new(origin, (origin - character.PrimaryPart.Position).Unit * -range), blacklist)

			if hit and hit:IsDescendantOf(character) then
				break
			elseif hit and ignoreIf(hit) then
				debug("IGNORING OFF IF", hit:GetFullName())
				blacklist[#blacklist + 1] = hit
			else
				break
			end
		end
	end

	debug("LOS RESULT", hit and hit:GetFullName())

	return hit and hit:IsDescendantOf(character), point
end
