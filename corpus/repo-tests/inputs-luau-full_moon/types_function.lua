type function f(...)
    -- implementation of the type function
end

export type function f(...)
    -- implementation of the type function
end