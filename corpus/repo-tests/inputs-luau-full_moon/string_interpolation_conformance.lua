local function assertEq(left, right)
	assert(typeof(left) == "string", "left is a " .. typeof(left))
	assert(typeof(right) == "string", "right is a " .. typeof(right))

	if left ~= right then
		error(string.format("%q ~= %q", left, right))
	end
end

assertEq(`hello {"world"}`, "hello world")
assertEq(`Welcome {"to"} {"Luau"}!`, "Welcome to Luau!")

assertEq(`2 + 2 = {2 + 2}`, "2 + 2 = 4")

assertEq(`{1} {2} {3} {4} {5} {6} {7}`, "1 2 3 4 5 6 7")

local combo = {5, 2, 8, 9}
assertEq(`The lock combinations are: {table.concat(combo, ", ")}`, "The lock combinations are: 5, 2, 8, 9")

assertEq(`true = {true}`, "true = true")

local name = "Luau"
assertEq(`Welcome to {
	name
}!`, "Welcome to Luau!")

local nameNotConstantEvaluated = (function() return "Luau" end)()
assertEq(`Welcome to {nameNotConstantEvaluated}!`, "Welcome to Luau!")

assertEq(`This {localName} does not exist`, "This nil does not exist")

assertEq(`Welcome to \
{name}!`, "Welcome to \nLuau!")

assertEq(`empty`, "empty")

assertEq(`Escaped brace: \{}`, "Escaped brace: {}")
assertEq(`Escaped brace \{} with {"expression"}`, "Escaped brace {} with expression")
assertEq(`Backslash \ that escapes the space is not a part of the string...`, "Backslash  that escapes the space is not a part of the string...")
assertEq(`Escaped backslash \\`, "Escaped backslash \\")
assertEq(`Escaped backtick: \``, "Escaped backtick: `")

assertEq(`Hello {`from inside {"a nested string"}`}`, "Hello from inside a nested string")

assertEq(`1 {`2 {`3 {4}`}`}`, "1 2 3 4")

local health = 50
assert(`You have {health}% health` == "You have 50% health")

local function shadowsString(string)
	return `Value is {string}`
end

assertEq(shadowsString("hello"), "Value is hello")
assertEq(shadowsString(1), "Value is 1")

assertEq(`\u{0041}\t`, "A\t")

return "OK"
