type Foo = { bar: any }
export type Baz = { foo: any }
