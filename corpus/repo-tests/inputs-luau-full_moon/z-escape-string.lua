print("testing \z
	   twelve")

print("Hello \
	World")

print(`testing \z
	   twelve`)

print(`Hello \
	World`)
