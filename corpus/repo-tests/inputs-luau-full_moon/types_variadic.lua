--!strict
type Foo = (...number) -> ()
type Baz = (string, ...Foo) -> ...Foo
type Bar = (...number) -> (string, ...number) -> ...any
type Boom = (..."hit" | "miss") -> (string, ...("critical" | "weak" | "normal")) -> ...("dead" | "alive")

function _bar(...: number): ...number | string end

local f: Boom = function(...)
	return function(x, ...)
		return "alive", "dead"
	end
end

f("hit")

local Boo = {}
function Boo:f(name: string, ...: number): () -> (string, ...Foo) -> ()
	return function()
		return function(_x: string, ...: Foo) end
	end
end

type Fn<U...> = any
type T = Fn<...'ok'>