-- Taken from https://github.com/JohnnyMorganz/StyLua/blob/main/tests/inputs/multiline-expressions-3.lua
do
	do
		do
			do
				local text = "Players: " .. #Server_Container.ARandomVariableWhichIsVeryLongSoThatThisGetsOverTheColumnLimit.Players_F:GetChildren() - 1 .. "/20"
				local ratio = (minAxis - minAxisSize) / delta * (self.props.maxScaleRatio - self.props.minScaleRatio) + self.props.minScaleRatio
				local ratio2 = (minAxis - minAxisSize) / delta * (self.props.maxScaleRatio - self.props.minScaleRatio) * self.props.aRandomVariableWhichIsVeryLong + self.props.minScaleRatio
			end
		end
	end
end
