local _ = `{ {}}`
local _ = `{--[[]]{}}`
local _ = `\{{true}`
local _ = `{ {true}}`
-- TODO: https://github.com/Roblox/luau/issues/1019
-- local _ = `{ {hello}}`
local _ = `\{{hello}}`