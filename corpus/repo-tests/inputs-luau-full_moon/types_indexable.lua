local x: module.Foo = nil
local x: module.Array<string> = { "bar" }
local x: module.Foo | string = "bar"
local x: module.Foo? = nil
local x: module.Foo<...string> = nil