for i, v: string in pairs() do

end

for i: number = 1, 10, 2 do
    
end