type Bar = Foo<>
type Baz = module.Foo<>