type TypeOf =
    typeof({})
