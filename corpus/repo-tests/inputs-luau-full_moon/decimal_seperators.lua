local num1 = 1_048_576
local num2 = 0xFFFF_FFFF
local num3 = 0b_0101_0101
local num4 = 1_523_423.132_452_312
local num5 = 1e512_412
local num6 = 1e-512_412