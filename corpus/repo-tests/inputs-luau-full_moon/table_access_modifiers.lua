type Foo = {
	read bar: number,
	write baz: number,
}