--!strict
function _foo<T...>(param: () -> T...)
end

type Foo<T...> = () -> T...

function _bar<T...>(...: T...)
end

type A<Z, P...> = {}
type C<S...> = A<number, S...> -- with a generic type pack
type B = A<number, ...string> -- with a variadic type pack
type D = A<number, ()> -- with an empty type pack

type Function<Args..., Return...> = (Args...) -> Return...

type AnyFunction = Function<...any, ...any>

local _g: Function<(number, string, ...string), (string, number)>? = nil