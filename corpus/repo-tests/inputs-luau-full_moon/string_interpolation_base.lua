x(`simple`)
x(`hello {"world"}`)
x(`1{2}3{"4"}5`)
x(`1{`2{"3"}`}`)
