error(
	`a {b} c`
)
