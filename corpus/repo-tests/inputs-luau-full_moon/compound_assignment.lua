local x = 1
local y = 2

x += 5
x -= 5
x *= 5
x /= 5
x //= 5
x %= 5
x ^= 5

x += y
x -= y
x *= y
x /= y
x //= y
x %= y
x ^= y

local str1 = "Hello, "
local str2 = "world!"

str1 ..= "world!"
str1 ..= str2