--!strict
function _foo<x, y>()
end

local function _bar<x>()
end

export type Foo0 = {
	bar: <T>(
		a: T,
		b: nil | number | boolean
	) -> T,
}
local _baz
export type Foo1 = {
	bar: <T>(
		a: T,
		b: nil | number | boolean
	) -> ((arg0: T) -> ())?,
}

_baz = function<T>(a: T, b: number | boolean | nil): nil | T
    return nil
end