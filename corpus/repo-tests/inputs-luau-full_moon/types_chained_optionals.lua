type Config = {
    option1: string??, -- you probably need it once in a while
    option2: string???, -- once a year
    option3: string?????? -- once in your life!
}