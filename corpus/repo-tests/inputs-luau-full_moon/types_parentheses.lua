--!strict
type GField<_crack, __fuzzing> = {}
local TypeInfo = {}
function TypeInfo.new(
	getFieldDefFn: (() -> GField<any, any>?)?
)
end

export type Thunk<T> = (() -> T) | T

export type PromiseLike<T> = {
    andThen: (
                ((T) -> T)? | (PromiseLike<T>)?, -- resolve
                ((any) -> () | PromiseLike<T>)? -- reject
        ) -> PromiseLike<T>
}

local GError = {}
type GError = typeof(GError)
type Error = { message: string?, stacktrace: string? }
function GError.new(
	originalError: (Error & { extensions: any? }) -- new syntax
): GError?
  return nil
end

type IProperties = {
	RemoveOnCollision: (string | (IProperties, BasePart, Vector3, Vector3, Enum.Material, number) -> boolean)?,
}