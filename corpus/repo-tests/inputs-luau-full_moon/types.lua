--!strict
local _fn3
type Identity<T> = T
type Array<T> = { [number]: T }
type Map<K, V> = { [K]: V }
type Function<T> = (...any) -> ...T
type Object = { x: number, y: number }
type Typeof = typeof(2 + 2 + _fn3())
type FetchResult = "alice" | "mallet"
type Element = { ["$$typeof"]: number }

type Callback1 = (string) -> number
type Callback2 = (string, string) -> number
type Callback3 = (string, string) -> (string, nil)
type Callback3a = (string, "error" | "success") -> (string, "weasel" | "basilisk")
type Callback4 = (string) -> (string) -> ()
type NetworkError = { message: string? } & { handled: true }

type Foo = {
	bar: number,
	baz: number,
}

local foo0: number = 3
local _foo1: number?
local _foo2: Array<string>
local _foo3: Map<number, "allow" | "deny">
local _bar0 = foo0 :: number
local _foo4: string, _bar1: string

local _union: number | string
local _multiUnion: number | string | nil
local _leadingUnion: | number | string | nil

local _intersection: number & string
local _multiIntersection: number & string & nil
local _leadingIntersection: & number & string & nil

function _fn0(param: string): string
	return param
end

function _fn2(a: string, b: string, ...) end

local _fn3 = function(): number | nil
	return 3
end

local function _concat<T, S>(source: Array<T>, ...: Array<S> | S): Array<T> & Array<S>
    return (source :: any) :: Array<S> & Array<T>
end