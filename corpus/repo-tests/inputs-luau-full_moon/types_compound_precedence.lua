-- https://github.com/Kampfkarren/full-moon/issues/286

-- should be parsed as a function returning a variable amount of values of type "string & T"
type FnA = () -> ...string & T

-- should be parsed as an intersection of a function returning U... values, and a value of type T
type FnB<U...> = () -> U... & T
