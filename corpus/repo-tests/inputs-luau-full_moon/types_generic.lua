type Array<T> = { T }
local x: Array<Array<number>>
