type Foo = {
	bar: number;
	baz: number;
}