type Foo = { { string } }
type Foo = { {Name: string, Foo: number} }