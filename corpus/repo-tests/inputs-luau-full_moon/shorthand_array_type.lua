type Array<T> = { T }
type Array<T> = { [number]: T }