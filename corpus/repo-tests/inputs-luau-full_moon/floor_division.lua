local x = 1 // 2
