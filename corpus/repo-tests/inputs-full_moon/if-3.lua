if x then
	foo()
elseif y then
	bar()
end