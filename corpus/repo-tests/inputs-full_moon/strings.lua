call("double")
call('single')
call("foo\nbar")
call("")