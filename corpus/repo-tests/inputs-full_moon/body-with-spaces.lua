do
    
end