do
	call()
end