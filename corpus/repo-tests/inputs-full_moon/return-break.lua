do
	return 1
end

do
	break
end

return call()
