while condition do
	call()
	break
end