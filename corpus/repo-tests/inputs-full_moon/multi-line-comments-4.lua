--[=====[
	lua be like
]====]
	still going
]=====]