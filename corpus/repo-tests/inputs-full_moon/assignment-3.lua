-- Crazy assignment code from AmaranthineCodices
a, b, c.d.e[f][g][1], h:i().j[k]:l()[m] = true, false, 1, 4