local x = {
}