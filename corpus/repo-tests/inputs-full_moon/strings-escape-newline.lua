print("foo\
	bar")
