local function x(...--[[comment here]])
end