for index = 1, 10 do call(index) end
for _ = start, final do end
for _ = 1, 10, 2 do end