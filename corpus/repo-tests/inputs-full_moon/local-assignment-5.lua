local x = 1
-- Then a comment
local y = 1
