#!/usr/bin/env lua

print("Hello world");
