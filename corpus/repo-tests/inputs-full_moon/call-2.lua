x.y("a")
x:y("b")