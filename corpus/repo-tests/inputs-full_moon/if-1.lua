if x then
	call()
end