	-- Indented single line
	--[[
		Indented multi line
	]]