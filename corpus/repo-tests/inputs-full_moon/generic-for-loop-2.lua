for index, value in next, list do
	call(index, value)
end