local x = {
	[call()] = 1,
	2,
}