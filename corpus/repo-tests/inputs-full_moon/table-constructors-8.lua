return {
	["Noob Attack: Periastron"] = "Noob Attack - Periastron";
	["Noob Attack꞉ Periastron"] = "Noob Attack - Periastron";
}
