gui.Label.Text = "LOADING DATA" .. ("."):rep(dotCount)
