local negativeLiteral = -3
local negativeVariable = -x
local notLiteral = not true
local notVariable = not x
local length = #x