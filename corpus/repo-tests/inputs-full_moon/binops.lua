a = foo and bar
b = foo and bar or baz
c = 1 + 2 * 3 - 4 ^ 2
d = a + i < b / 2 + 1
e = 5 + x ^ 2 * 8
f = a < y and y <= z
g = -x ^ 2
h = x ^ y ^ z