--[=[
	never have i used these weird equals signs comments
	but im sure someone does
]=]