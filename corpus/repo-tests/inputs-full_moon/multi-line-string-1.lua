local x = [[Full Moon
is a
lossless
Lua parser]]