local x = [=[This is
several equal
signs]=]