local function foo(a, b) end
local function bar(...) end
local function baz(a, b, ...) end