local x = 1
return x;