local blacklist = {
	["Audio file failed to load (18)."] = true;
	["HTTP 0 (HTTP 429 (HTTP/1.1 429 ProvisionedThroughputExceeded))"] = true;
	["LoadCharacter can only be called when Player is in the world"] = true;
}