local x = {
	[call()] = 1,
}