call { x = 1 }
call "hello"