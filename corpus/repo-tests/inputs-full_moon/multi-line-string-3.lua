local x = [[
local emotes = {
	[":thinking:"] = "http://www.roblox.com/asset/?id=643340245",
	[":bug:"] = "http://www.roblox.com/asset/?id=860037275"
}
]]