--[[👨🏾‍💻]]
local more_code = here
