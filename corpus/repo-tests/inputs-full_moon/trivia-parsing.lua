local foo = bar -- trailing comment

-- leading comment
local bar = baz
local baz = foo

do
	local foo = bar
	-- comment
	local bar = baz
end