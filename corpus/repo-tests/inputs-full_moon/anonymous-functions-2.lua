call(function()
	foo("bar")
end)