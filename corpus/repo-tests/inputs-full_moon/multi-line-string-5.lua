local emoji = [[🧓🏽]]
local more_code = here
