for index, value in pairs(list) do
	call(index, value)
end