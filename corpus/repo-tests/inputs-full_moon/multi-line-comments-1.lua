--[[
	such comments
	much lines
	wow
]]