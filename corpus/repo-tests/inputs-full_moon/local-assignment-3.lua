local a, b = 1, 2
local c, d = 3, 4
local e, f = 5, 6