call()
call(1)
call(1, 2)