local x = {
	a = 1,
	b = 2,
	c = 3
}

local y = {
	a = 1,
	b = 2,
	c = 3,
}