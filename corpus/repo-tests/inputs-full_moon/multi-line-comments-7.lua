--[=[ μέλλον ]=]

-- some text here
