if x then
	foo()
else
	bar()
end