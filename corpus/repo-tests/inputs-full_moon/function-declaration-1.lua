function x()
	call()
end