local x = function()
	call(1)
end
