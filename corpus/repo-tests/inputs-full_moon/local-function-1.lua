local function x()
	call(1)
end
