-- goto as an identifier is permitted in lua 5.1
self.goto("foo")