-- comments separated by tab chars, should be parsed as trailing trivia of the tokens they are next to
-- stylua: ignore
local too = {
	x,		-- string
	y,		-- string
}
