local foo = x-1
local foo = x -1
print(1+-3)
local foo = -x+1