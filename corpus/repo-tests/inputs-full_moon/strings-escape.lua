call('\\')
call("\\")
call({ ["\\"] = "" })