local num = 1e5
local num2 = 1e-5
local num3 = 1e+5