local foo = "bar\
baz"
