--[=[

	This description starts one line down,

	And has a line in the middle, followed by trailing lines.

	```lua
	function test()
		print("indentation")

		do
			print("more indented")
		end
	end
	```


	@class indentation


]=]