local num = 0.5
local num2 = 0.5e5
local num3 = .5
local num4 = .5e5
local num5 = 1.
