repeat
	call()
until condition