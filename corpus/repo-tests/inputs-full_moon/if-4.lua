if x then
	foo()
elseif y then
	bar()
else
	baz()
end