-- https://github.com/JohnnyMorganz/StyLua/issues/389
repeat
	x = x + 1
until (x + y < 2) -- comment
