local foo = {
	[ [[test]] ] = true,
}

foo[ [[test]] ] = false
