local x = {
	"foo", -- comment
	"bar", -- test
	"baz" -- test
}

local foo = {
	MinSize = call(0, 0),
	MaxSize = call(math.huge, 500) -- TODO: Set this up
}

local x = { -- comment
    hello = "world",
    foo = "bar",
}

local foo = { -- bar
}

local bar = { baz -- bar
}

local baz = {
	-- foo
}

local foobar = {
	"string"
} -- trailing comment


local tbl = Roact.createElement({
	-- comment
	a = test
	-- comment
})