local x = 1
-- this is a comment