a = {
	key1 = string.format("test", "test", "test", "test", "test", "test", "test", "test", "test", "test", variable_names),
	key2 = string.format("test", "test", "test", "test", "test", "test", "test", "test", "test", "test", variable_names),
}
