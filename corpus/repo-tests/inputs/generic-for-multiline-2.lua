-- https://github.com/JohnnyMorganz/StyLua/issues/579
for _, item in
	-- comment
	call()
do
end


for _, item in -- comment
	call()
do
end


for _, item in           -- comment

	call()
do
end
