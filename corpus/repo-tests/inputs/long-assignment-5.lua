-- https://github.com/JohnnyMorganz/StyLua/issues/292
local musicId, musicTime, responseTick, responseOffset = remotes.Server.GetSpectatorInfo:InvokeServer(player, sendTick, anotherArgument)
