foo( -- comment
baz
)

foo(
baz, -- comment
bar
)

foo (
	baz,
	-- comment
	bar
)

foo(baz, 
bar -- comment
)

foo(baz, bar) -- comment

foo(
	-- comment
	baz,
	bar
)
