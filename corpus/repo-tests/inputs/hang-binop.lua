local foo = x ^ -- comment
	y % -- comment
	z - -- comment
	a <= -- comment
	b < -- comment
	c >= -- comment
	d
