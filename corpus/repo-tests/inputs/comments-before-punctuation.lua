-- https://github.com/JohnnyMorganz/StyLua/issues/778
-- comments should stay before punctuation to ensure type assertions work in sumneko-lua

function fun(
	a --[[ a commnet]],
	b
)
end

local tab = {
	a = 1 --[[@as integer ]],
	b = 1,
}

call(
	long_argument_name --[[@as integer ]],
	long_argument_name,
	long_argument_name,
	long_argument_name,
	long_argument_name
)
