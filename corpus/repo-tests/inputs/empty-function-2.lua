local function noop() -- comment
end

function noop()
	-- comment
end

call(function()
	-- comment

end)