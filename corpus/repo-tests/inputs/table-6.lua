-- https://github.com/JohnnyMorganz/StyLua/issues/296
aaaaaaaaaaaaaaaaaaaaaaaaaaaaaaaaaaaaaaaaaaaaaaaaaaaa({ aaaaaaaaaaaaaaaaaaaaaaaaaaaaaaaaaaaaaaaaaaaaaaaaaaaaaa = false})
aaaaaaaaaaaaaaaaaaaaaaaaaaaaaaaaaaaaaaaaaaaaaaaaaaaa({ aaaaaaaaaaaaaaaaaaaaaaaaaaaaaaaaaaaaaaaaaaaaaaaaaaaaaa = false })
