call "string" 
call {foo='bar',baz=1}  
call  (x,y, z)   