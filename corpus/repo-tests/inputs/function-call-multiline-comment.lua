-- https://github.com/JohnnyMorganz/StyLua/issues/543
-- no need to expand

call(item, --[[param=]] false)

call(--[[ we don't use it ]]true)

call(
	--[[
		this comment spans
		multiple lines
	]]
	false
)

x(
	true,
	90210
	--[[
		color wheel is time-reversed
	]],
	--[[ frobnikate the widget ]]
	false,
	true
	--[[ spin the tesla coils ]]
)
