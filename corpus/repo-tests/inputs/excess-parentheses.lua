local x
something((x))

local x = (1 + 2) * 3
local y = ((1) * 3)
local z = (...) == nil and foo or bar
local foo = not (bar and baz)
local bar = (#bar) and baz
local cond = condition and (not object or object.Value == y)
local baz = (-4 + 3) * 2

({}):foo();
("hello"):format()

function x()
	return 1, 2
end

print(x())
print((x()))
print(((x())))

path = (function()
  return true
end)()

-- The following should have parentheses removed, but if they were a Prefix, they wouldn't be removed
local x = ({})
local y = ("hello")
local z = (function()
	return true
end)
