local a = 0.5
local b = .5
local c = 100
local d = 5e-5
local e = -.5
local f = .2e-5
local g = -.1e+5
local h = 0x12