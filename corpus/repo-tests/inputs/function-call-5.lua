function GamepadModule.gamepadLinearToCurve(thumbstickPosition)
	return Vector2.new(
		math.clamp(
			math.sign(thumbstickPosition.X)
				* fromSCurveSpace(SCurveTransform(toSCurveSpace(math.abs(thumbstickPosition.X)))),
			-1,
			1
		),
		math.clamp(
			math.sign(thumbstickPosition.Y)
				* fromSCurveSpace(SCurveTransform(toSCurveSpace(math.abs(thumbstickPosition.Y)))),
			-1,
			1
		)
	)
end
