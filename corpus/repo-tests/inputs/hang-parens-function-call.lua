-- https://github.com/JohnnyMorganz/StyLua/issues/456
do
	do
		WallCollisionPart.Position = Vector3.new(
			WallCollisionPart.Position.X,
			(
				(GeneratedTower.Top.PrimaryPart.Position.Y - GeneratedTower.Top.PrimaryPart.Size.Y / 2)
				+ (GeneratedTower.Bottom.PrimaryPart.Position.Y - GeneratedTower.Bottom.PrimaryPart.Size.Y / 2)
			) / 2,
			WallCollisionPart.Position.Z
		)

		WallCollisionPart.Position = Vector3.new(
			WallCollisionPart.Position.X,
			(
				(GeneratedTower.Top.PrimaryPart.Position.Y - GeneratedTower.Top.PrimaryPart.Size.Y / 2)
				+ (GeneratedTower.Bottom.PrimaryPart.Position.Y - GeneratedTower.Bottom.PrimaryPart.Size.Y / 2)
			) / AComplexFunctionCall(withAReallyLongArgument, "this is a complex function call message", anotherReallyLongArgument),
			WallCollisionPart.Position.Z
		)

		WallCollisionPart.Position = Vector3.new(
			WallCollisionPart.Position.X,
			AComplexFunctionCall(withAReallyLongArgument, "this is a complex function call message", anotherReallyLongArgument) /
			(
				(GeneratedTower.Top.PrimaryPart.Position.Y - GeneratedTower.Top.PrimaryPart.Size.Y / 2)
				+ (GeneratedTower.Bottom.PrimaryPart.Position.Y - GeneratedTower.Bottom.PrimaryPart.Size.Y / 2)
			),
			WallCollisionPart.Position.Z
		)
	end
end
