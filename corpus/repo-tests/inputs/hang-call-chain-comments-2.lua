-- https://github.com/JohnnyMorganz/StyLua/issues/747

obj. --
func(). --
func(). --
func()
