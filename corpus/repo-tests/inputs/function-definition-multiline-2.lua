-- https://github.com/JohnnyMorganz/StyLua/issues/830
local a_very_long_variable_name_given_that_is_bigger_than_width_upper_limit_but_unfortunately_can_not_be_made_shorter = function()
	print("Hello")
end
