-- standard escapes
local a = "foo \a \b \f \n \r \t \v \\ \" \'"

-- decimal escapes
local b = "\000 \001 \189 \254 \255"
local b2 = "\1 \2 \71\9"

-- lua 5.2: hex escapes
local c = "hello \x77\x6f\x72\x6c\x64\x99"

-- lua 5.2: \z
local d = "hello \z  test"

-- lua 5.3: utf8
local e = "\u{123} \u{255}"

-- wrong:
local f = "\q \p \e"
