function foo()

	local x = 1


	return true

end

function bar()


	return


end

do

	-- comment
	local x = 1


	local foo = bar

	-- comment

end