-- https://github.com/JohnnyMorganz/StyLua/issues/609
-- Indicate precedence
local _ = (not true) == true
local _ = (not true) and false

-- https://github.com/JohnnyMorganz/StyLua/issues/623
-- Changes meaning
local y = (-X) ^ Y
