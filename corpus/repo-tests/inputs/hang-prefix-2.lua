do
	do
		local CreatedDirection = (
			DirectionalCF * CFrame.fromOrientation(0, 0, RNG:NextNumber(0, TAU)) * CFrame.fromOrientation(
				math.rad(RNG:NextNumber(
					GunMainConfiguration.BulletMinSpreadAngle or GlobalConfiguration.DEFAULT_MIN_SPREAD_ANGLE,
					GunMainConfiguration.BulletMaxSpreadAngle or GlobalConfiguration.DEFAULT_MAX_SPREAD_ANGLE
				)),
				0,
				0
			)
		).LookVector
	end
end

		