--[[Testing this]]
local function foo(bar, baz) print(bar,baz) end --this is a nice function  
local test = {}--this comment should stay  


local y = foo
-- comment line 1
-- comment line 2, should not be split from above comment
local x = test