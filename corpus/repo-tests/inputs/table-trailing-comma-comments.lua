-- https://github.com/JohnnyMorganz/StyLua/issues/547
local too = {
	x,		-- string
	y		-- string
}
