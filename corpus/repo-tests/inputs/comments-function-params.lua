function sayHello(
	name,    -- YourName
	foo,--baz
	greeting -- Message
)
	return greeting .. ", " .. name
end