do
	do
		do
			do
				do
					do
						jestExpect(ReactIs.typeOf(React.createElement(React.Profiler, { id = "foo", onRender = jest.fn() }))).toBe(ReactIs.Profiler)
					end
				end
			end
		end
	end
end
