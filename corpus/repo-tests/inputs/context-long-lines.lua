do
	local region = Region3.new(part.Position - (0.5 * part.Size), part.Position + (0.5 * part.Size))

	do
		do
			return function(...)
				callback(LOG_FORMAT:format(os.date("%H:%M:%S"), key, level, fmt.fmt(...)))
			end
		end
	end

	self.digits = math.ceil(math.log10(math.max(math.abs(self.props.maxValue), math.abs(self.props.minValue))))
end

local gamemodes, keysById, idsByKey = createDataIndex(script.AllGamemodes, validateGamemodeSchema)

HealthRegen.ValidateInstance = t.intersection(ComponentUtil.HasComponentValidator("Health"), ComponentUtil.HasComponentValidator("Target"))