local output = Job
    :new({
    command = "stylua",
    args = { "-" },
    writer = api.nvim_buf_get_lines(bufnr, 0, -1, false),
  })
    :sync()
