React.createElement("span", { key = id }, React.createElement(Consumer, nil, function()
	return React.createElement("span", nil, "inner")
end), React.createElement("span", nil, "outer"))