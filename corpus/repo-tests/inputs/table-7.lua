-- https://github.com/JohnnyMorganz/StyLua/issues/436
local OffsetEnum = {aValue = 10, anotherValue = 11, yetAnotherValue = 12, reset = 0, postReset = 1, aaaaaaaaaaa = true}

local OffsetEnum = { aValue = 10, anotherValue = 11, yetAnotherValue = 12, reset = 0, postReset = 1, aaaaaaaaa = true }
