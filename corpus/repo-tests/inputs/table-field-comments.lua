-- https://github.com/JohnnyMorganz/StyLua/issues/471
local foo = {
	x = props.Item.Type == "Crystal"
		and utf8.char(0x221e) -- Infinite symbol
		or nil,
}
