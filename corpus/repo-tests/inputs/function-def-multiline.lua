function foo(foooooooooooooooooooooooooooooooooooooooooooooooooooooooooooooooooo, barrrrrrrrrrrrrrrrrrrrrrrrrrrrrrr) end

function foo(foooooooooooooooooooooooooooooooooooooooooooooooooooooooooooooooooo, barrrrrrrrrrrrrrrrrrrrrrrrrrrrrrrrrr)
end

function foobar(fooooo, barrrrrrrrrr, bazzzzzzzzzzzzzzz, fooooooooooo, bazzzzzzzzzzzzzzzzzzz, barrrrrrrrrrrrrrrrrrrrrrrr)
	print("test")
end

do
	function foo(fooooo, barr -- test
	)
		print("test")
	end
end

do
	function bar(foooooooooooooooooooooooooooooooooooooooooooooooooooooooooooooooooo, barrrrrrrrrrrrrrrrrrrrrrrrrrrrrrrrrr)
	end
end

local x = {
	func = function (fooooo, bar --test
	)
		print("test")
	end,
}