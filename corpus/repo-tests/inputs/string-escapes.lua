local foo = 'this \'string\' has \'escaped\' single quotes with "double quotes"'
local bar = "test \'foo\' \"bar\""
local baz = '\\"""'