-- https://github.com/JohnnyMorganz/StyLua/issues/274
local tbl = {
	key = long_variable_name,
	key = long_variable_name,
	key = long_variable_name,
	key = long_variable_name,
	key = long_variable_name,
	key = long_variable_name,
	key = long_variable_name,
}
function_call(
	long_variable_name,
	long_variable_name,
	long_variable_name,
	long_variable_name,
	long_variable_name,
	long_variable_name,
	long_variable_name,
	long_variable_name
)
local test = (
	long_variable_name
	+ long_variable_name
	+ long_variable_name
	+ long_variable_name
	+ long_variable_name
	+ long_variable_name
	+ long_variable_name
	+ long_variable_name
	+ long_variable_name
	+ long_variable_name
)

-- Multiple assigns
local test, test2 = (
	long_variable_name
	+ long_variable_name
	+ long_variable_name
	+ long_variable_name
	+ long_variable_name
	+ long_variable_name
	+ long_variable_name
	+ long_variable_name
	+ long_variable_name
	+ long_variable_name
), (
	long_variable_name
	+ long_variable_name
	+ long_variable_name
	+ long_variable_name
	+ long_variable_name
	+ long_variable_name
	+ long_variable_name
	+ long_variable_name
	+ long_variable_name
	+ long_variable_name
)

-- Multiple assigns of different types
local test, test2 = foo and bar or baz, (
	long_variable_name
	+ long_variable_name
	+ long_variable_name
	+ long_variable_name
	+ long_variable_name
	+ long_variable_name
	+ long_variable_name
	+ long_variable_name
	+ long_variable_name
	+ long_variable_name
)

-- Negated Assigns
local test = not (
	long_variable_name
	+ long_variable_name
	+ long_variable_name
	+ long_variable_name
	+ long_variable_name
	+ long_variable_name
	+ long_variable_name
	+ long_variable_name
	+ long_variable_name
	+ long_variable_name
)
