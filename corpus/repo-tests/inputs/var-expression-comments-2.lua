-- https://github.com/JohnnyMorganz/StyLua/issues/509
local foo = bar -- comment after bar
        .fizz -- comment after fizz
