-- https://github.com/JohnnyMorganz/StyLua/issues/662
function f()
	return a -- adoc
		, b -- bdoc
end
