-- https://github.com/JohnnyMorganz/StyLua/issues/504
local x = {
	FragmentDefinition = function(ref)
		local name, typeCondition, variableDefinitions, directives, selectionSet =
			ref.name, ref.typeCondition, ref.variableDefinitions, ref.directives, ref.selectionSet
		return
		-- Note: fragment variable definitions are experimental and may be changed
		-- or removed in the future.
			("fragment %s%s "):format(
				tostring(name),
				tostring(wrap("(", join(variableDefinitions, ", "), ")"))
			) .. ("on %s %s"):format(
				tostring(typeCondition),
				tostring(wrap("", join(directives, " "), " "))
			) .. tostring(selectionSet)
        end,
}
