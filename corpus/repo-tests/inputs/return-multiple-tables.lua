-- https://github.com/JohnnyMorganz/StyLua/issues/302
return {
	foo = bar,
	foo = bar,
	foo = bar,
	foo = bar,
	foo = bar,
	foo = bar,
	foo = bar,
	foo = bar,
}, {
	bar = baz,
	bar = baz,
	bar = baz,
	bar = baz,
	bar = baz,
	bar = baz,
	bar = baz,
	bar = baz,
}
