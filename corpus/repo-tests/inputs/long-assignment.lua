local LoadAddOn, UnitName, GetRealmName, UnitRace, UnitFactionGroup, IsInRaid = LoadAddOn, UnitName, GetRealmName, UnitRace, UnitFactionGroup, IsInRaid

LoadAddOn, UnitName, GetRealmName, UnitRace, UnitFactionGroup, IsInRaid = LoadAddOn, UnitName, GetRealmName, UnitRace, UnitFactionGroup, IsInRaid

do
	local LoadAddOn, UnitName, GetRealmName, UnitRace, UnitFactionGroup, IsInRaid = LoadAddOn, UnitName, GetRealmName, UnitRace, UnitFactionGroup, IsInRaid
end

do
	local XOffset, YOffset, ZOffset = CFrame.new(GlobalConfiguration.TPS_CAMERA_OFFSET.X, 0, 0), CFrame.new(0, GlobalConfiguration.TPS_CAMERA_OFFSET.Y, 0), CFrame.new(0, 0, GlobalConfiguration.TPS_CAMERA_OFFSET.Z)
end