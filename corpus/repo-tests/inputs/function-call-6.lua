-- hug table braces with parentheses

print({ foo_variable = "some long value", foo_variable = "some long value", foo_variable = "some long value", foo_variable = "some long value", })

print({ foo_variable = "somenge", foo_variable = "malue", foo_variable = "alueeeeeeeeeeeeeeeeeeeeeeeeeeeeeeeeeeeeeeeeee" })

-- but not if there is a comment present

foo( -- test
   { bar })

foo( -- test
	{
	   bar
	}
)

