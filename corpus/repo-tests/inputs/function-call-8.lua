function_call(("hello" .. "darkness" .. "my" .. "old" .. "friend" .. "hello" .. "darkness" .. "my" .. "old" .. "friend" .. "!!!!!!!!!!!!"):call())
