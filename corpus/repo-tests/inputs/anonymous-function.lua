local foo = function(bar, baz) print(foo) end
call(function(x,y) local x = test end)