-- https://github.com/JohnnyMorganz/StyLua/issues/318
local a = {
	b = -- equals trailing comment
		foo(),
	c -- key trailing comment
		= bar(),
	-- expression leading comment
	"d",
	-- key leading comment
	e -- key trailing comment
	-- equals leading comment
	= -- equals trailing comment
	baz(),


	["f"] = -- equals trailing comment
		foo(),
	["g"] -- key trailing comment
		= bar(),
	-- key leading comment
	["h"] -- key trailing comment
	-- equals leading comment
	= -- equals trailing comment
	baz(),
}

local b = {
    b =  -- a comment breaks it
    {
        c = "d",
    },
}

local c = {
	-- comment group 1
	-- part of this group

	-- another comment group
	-- dont group with the above comment group
	x = y
}
