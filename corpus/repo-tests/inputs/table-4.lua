local thisisathing = {this_is_one = "one", this_is_two = "two", this_is_three = "three", this_is_four = "four", f = "b"}
