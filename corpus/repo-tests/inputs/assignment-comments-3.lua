-- https://github.com/JohnnyMorganz/StyLua/issues/662
local a, b
= 1 -- adoc
, 2 -- bdoc

local a -- adoc
, b -- bdoc
= 1, 2
