-- https://github.com/JohnnyMorganz/StyLua/issues/416
local variable = call(somethingToCall().foo.bar.baz, "some super long string that will stay on this line aaaaaaaaaaaaaaaaa") -- a comment
	.. "another string"
