function foo()
    function bar()
        function baz()
            --[[
                comment
            ]]
            local x = 1
        end
    end
end