if
	this -- foobar
then
elseif
	foobar or code == 10 -- \n
then
	pos = 1
	lexer.line = 1
	lexer.lineStart = pos - 1
end

local function coerceToMap(mapLike)
	return instanceOf(mapLike, Map) and mapLike -- ROBLOX: order is preservered
		or Map.new(Object.entries(mapLike)) -- ROBLOX: order is not preserved
end

if -- comment
	foo
then
end

if
	foo
	-- comment
then
end

while -- commend
	foo
do
end

while
	foo
	-- comment
do
end

do
	return foo -- comment
		or bar, -- comment
		baz and foo
end

local x = foo -- comment
		or bar, -- comment
		baz and foo
