-- https://github.com/JohnnyMorganz/StyLua/issues/508
exports.ScalarLeafsRule = function(context)
	return {
			Field = function(_self, node)
					if type_ then
							if not selectionSet then
									context:reportError(
											GraphQLError.new(
													('Field "%s" of type "%s" must have a selection of subfields. Did you mean "%s { ... }"?'):format(
															fieldName,
															typeStr,
															fieldName
													),
													node
											)
									)
							end
					end
			end,
	}
end
