local function noop() end

function noop() end

call(function() end)