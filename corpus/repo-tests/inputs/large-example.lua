--[[
	Taken from: https://github.com/evaera/roblox-lua-promise

	MIT License

	Copyright (c) 2019 Eryn L. K.

	Permission is hereby granted, free of charge, to any person obtaining a copy
	of this software and associated documentation files (the "Software"), to deal
	in the Software without restriction, including without limitation the rights
	to use, copy, modify, merge, publish, distribute, sublicense, and/or sell
	copies of the Software, and to permit persons to whom the Software is
	furnished to do so, subject to the following conditions:

	The above copyright notice and this permission notice shall be included in all
	copies or substantial portions of the Software.

	THE SOFTWARE IS PROVIDED "AS IS", WITHOUT WARRANTY OF ANY KIND, EXPRESS OR
	IMPLIED, INCLUDING BUT NOT LIMITED TO THE WARRANTIES OF MERCHANTABILITY,
	FITNESS FOR A PARTICULAR PURPOSE AND NONINFRINGEMENT. IN NO EVENT SHALL THE
	AUTHORS OR COPYRIGHT HOLDERS BE LIABLE FOR ANY CLAIM, DAMAGES OR OTHER
	LIABILITY, WHETHER IN AN ACTION OF CONTRACT, TORT OR OTHERWISE, ARISING FROM,
	OUT OF OR IN CONNECTION WITH THE SOFTWARE OR THE USE OR OTHER DEALINGS IN THE
	SOFTWARE.

	An implementation of Promises similar to Promise/A+.
]]

local ERROR_NON_PROMISE_IN_LIST = "Non-promise value passed into %s at index %s"
local ERROR_NON_LIST = "Please pass a list of promises to %s"
local ERROR_NON_FUNCTION = "Please pass a handler function to %s!"
local MODE_KEY_METATABLE = {__mode = "k"}

--[[
	Creates an enum dictionary with some metamethods to prevent common mistakes.
]]
local function makeEnum(enumName, members)
	local enum = {}

	for _, memberName in ipairs(members) do
		enum[memberName] = memberName
	end

	return setmetatable(enum, {
		__index = function(_, k)
			error(string.format("%s is not in %s!", k, enumName), 2)
		end,
		__newindex = function()
			error(string.format("Creating new members in %s is not allowed!", enumName), 2)
		end,
	})
end

--[[
	An object to represent runtime errors that occur during execution.
	Promises that experience an error like this will be rejected with
	an instance of this object.
]]
local Error do
	Error = {
		Kind = makeEnum("Promise.Error.Kind", {
			"ExecutionError",
			"AlreadyCancelled",
			"NotResolvedInTime",
			"TimedOut",
		}),
	}
	Error.__index = Error

	function Error.new(options, parent)
		options = options or {}
		return setmetatable({
			error = tostring(options.error) or "[This error has no error text.]",
			trace = options.trace,
			context = options.context,
			kind = options.kind,
			parent = parent,
			createdTick = os.clock(),
			createdTrace = debug.traceback(),
		}, Error)
	end

	function Error.is(anything)
		if type(anything) == "table" then
			local metatable = getmetatable(anything)

			if type(metatable) == "table" then
				return rawget(anything, "error") ~= nil and type(rawget(metatable, "extend")) == "function"
			end
		end

		return false
	end

	function Error.isKind(anything, kind)
		assert(kind ~= nil, "Argument #2 to Promise.Error.isKind must not be nil")

		return Error.is(anything) and anything.kind == kind
	end

	function Error:extend(options)
		options = options or {}

		options.kind = options.kind or self.kind

		return Error.new(options, self)
	end

	function Error:getErrorChain()
		local runtimeErrors = { self }

		while runtimeErrors[#runtimeErrors].parent do
			table.insert(runtimeErrors, runtimeErrors[#runtimeErrors].parent)
		end

		return runtimeErrors
	end

	function Error:__tostring()
		local errorStrings = {
			string.format("-- Promise.Error(%s) --", self.kind or "?"),
		}

		for _, runtimeError in ipairs(self:getErrorChain()) do
			table.insert(errorStrings, table.concat({
				runtimeError.trace or runtimeError.error,
				runtimeError.context,
			}, "\n"))
		end

		return table.concat(errorStrings, "\n")
	end
end

--[[
	Packs a number of arguments into a table and returns its length.

	Used to cajole varargs without dropping sparse values.
]]
local function pack(...)
	return select("#", ...), { ... }
end

--[[
	Returns first value (success), and packs all following values.
]]
local function packResult(success, ...)
	return success, select("#", ...), { ... }
end


local function makeErrorHandler(traceback)
	assert(traceback ~= nil)

	return function(err)
		-- If the error object is already a table, forward it directly.
		-- Should we extend the error here and add our own trace?

		if type(err) == "table" then
			return err
		end

		return Error.new({
			error = err,
			kind = Error.Kind.ExecutionError,
			trace = debug.traceback(tostring(err), 2),
			context = "Promise created at:\n\n" .. traceback,
		})
	end
end

--[[
	Calls a Promise executor with error handling.
]]
local function runExecutor(traceback, callback, ...)
	return packResult(xpcall(callback, makeErrorHandler(traceback), ...))
end

--[[
	Creates a function that invokes a callback with correct error handling and
	resolution mechanisms.
]]
local function createAdvancer(traceback, callback, resolve, reject)
	return function(...)
		local ok, resultLength, result = runExecutor(traceback, callback, ...)

		if ok then
			resolve(unpack(result, 1, resultLength))
		else
			reject(result[1])
		end
	end
end

local function isEmpty(t)
	return next(t) == nil
end

local Promise = {
	Error = Error,
	Status = makeEnum("Promise.Status", {"Started", "Resolved", "Rejected", "Cancelled"}),
	_getTime = os.clock,
	_timeEvent = game:GetService("RunService").Heartbeat,
}
Promise.prototype = {}
Promise.__index = Promise.prototype

--[[
	Constructs a new Promise with the given initializing callback.

	This is generally only called when directly wrapping a non-promise API into
	a promise-based version.

	The callback will receive 'resolve' and 'reject' methods, used to start
	invoking the promise chain.

	Second parameter, parent, is used internally for tracking the "parent" in a
	promise chain. External code shouldn't need to worry about this.
]]
function Promise._new(traceback, callback, parent)
	if parent ~= nil and not Promise.is(parent) then
		error("Argument #2 to Promise.new must be a promise or nil", 2)
	end

	local self = {
		-- Used to locate where a promise was created
		_source = traceback,

		_status = Promise.Status.Started,

		-- A table containing a list of all results, whether success or failure.
		-- Only valid if _status is set to something besides Started
		_values = nil,

		-- Lua doesn't like sparse arrays very much, so we explicitly store the
		-- length of _values to handle middle nils.
		_valuesLength = -1,

		-- Tracks if this Promise has no error observers..
		_unhandledRejection = true,

		-- Queues representing functions we should invoke when we update!
		_queuedResolve = {},
		_queuedReject = {},
		_queuedFinally = {},

		-- The function to run when/if this promise is cancelled.
		_cancellationHook = nil,

		-- The "parent" of this promise in a promise chain. Required for
		-- cancellation propagation upstream.
		_parent = parent,

		-- Consumers are Promises that have chained onto this one.
		-- We track them for cancellation propagation downstream.
		_consumers = setmetatable({}, MODE_KEY_METATABLE),
	}

	if parent and parent._status == Promise.Status.Started then
		parent._consumers[self] = true
	end

	setmetatable(self, Promise)

	local function resolve(...)
		self:_resolve(...)
	end

	local function reject(...)
		self:_reject(...)
	end

	local function onCancel(cancellationHook)
		if cancellationHook then
			if self._status == Promise.Status.Cancelled then
				cancellationHook()
			else
				self._cancellationHook = cancellationHook
			end
		end

		return self._status == Promise.Status.Cancelled
	end

	coroutine.wrap(function()
		local ok, _, result = runExecutor(
			self._source,
			callback,
			resolve,
			reject,
			onCancel
		)

		if not ok then
			reject(result[1])
		end
	end)()

	return self
end

function Promise.new(executor)
	return Promise._new(debug.traceback(nil, 2), executor)
end

function Promise:__tostring()
	return string.format("Promise(%s)", self:getStatus())
end

--[[
	Promise.new, except pcall on a new thread is automatic.
]]
function Promise.defer(callback)
	local traceback = debug.traceback(nil, 2)
	local promise
	promise = Promise._new(traceback, function(resolve, reject, onCancel)
		local connection
		connection = Promise._timeEvent:Connect(function()
			connection:Disconnect()
			local ok, _, result = runExecutor(traceback, callback, resolve, reject, onCancel)

			if not ok then
				reject(result[1])
			end
		end)
	end)

	return promise
end

-- Backwards compatibility
Promise.async = Promise.defer

--[[
	Create a promise that represents the immediately resolved value.
]]
function Promise.resolve(...)
	local length, values = pack(...)
	return Promise._new(debug.traceback(nil, 2), function(resolve)
		resolve(unpack(values, 1, length))
	end)
end

--[[
	Create a promise that represents the immediately rejected value.
]]
function Promise.reject(...)
	local length, values = pack(...)
	return Promise._new(debug.traceback(nil, 2), function(_, reject)
		reject(unpack(values, 1, length))
	end)
end

--[[
	Runs a non-promise-returning function as a Promise with the
  given arguments.
]]
function Promise._try(traceback, callback, ...)
	local valuesLength, values = pack(...)

	return Promise._new(traceback, function(resolve)
		resolve(callback(unpack(values, 1, valuesLength)))
	end)
end

--[[
	Begins a Promise chain, turning synchronous errors into rejections.
]]
function Promise.try(...)
	return Promise._try(debug.traceback(nil, 2), ...)
end

--[[
	Returns a new promise that:
		* is resolved when all input promises resolve
		* is rejected if ANY input promises reject
]]
function Promise._all(traceback, promises, amount)
	if type(promises) ~= "table" then
		error(string.format(ERROR_NON_LIST, "Promise.all"), 3)
	end

	-- We need to check that each value is a promise here so that we can produce
	-- a proper error rather than a rejected promise with our error.
	for i, promise in pairs(promises) do
		if not Promise.is(promise) then
			error(string.format(ERROR_NON_PROMISE_IN_LIST, "Promise.all", tostring(i)), 3)
		end
	end

	-- If there are no values then return an already resolved promise.
	if #promises == 0 or amount == 0 then
		return Promise.resolve({})
	end

	return Promise._new(traceback, function(resolve, reject, onCancel)
		-- An array to contain our resolved values from the given promises.
		local resolvedValues = {}
		local newPromises = {}

		-- Keep a count of resolved promises because just checking the resolved
		-- values length wouldn't account for promises that resolve with nil.
		local resolvedCount = 0
		local rejectedCount = 0
		local done = false

		local function cancel()
			for _, promise in ipairs(newPromises) do
				promise:cancel()
			end
		end

		-- Called when a single value is resolved and resolves if all are done.
		local function resolveOne(i, ...)
			if done then
				return
			end

			resolvedCount = resolvedCount + 1

			if amount == nil then
				resolvedValues[i] = ...
			else
				resolvedValues[resolvedCount] = ...
			end

			if resolvedCount >= (amount or #promises) then
				done = true
				resolve(resolvedValues)
				cancel()
			end
		end

		onCancel(cancel)

		-- We can assume the values inside `promises` are all promises since we
		-- checked above.
		for i, promise in ipairs(promises) do
			newPromises[i] = promise:andThen(
				function(...)
					resolveOne(i, ...)
				end,
				function(...)
					rejectedCount = rejectedCount + 1

					if amount == nil or #promises - rejectedCount < amount then
						cancel()
						done = true

						reject(...)
					end
				end
			)
		end

		if done then
			cancel()
		end
	end)
end

function Promise.all(promises)
	return Promise._all(debug.traceback(nil, 2), promises)
end

function Promise.fold(list, callback, initialValue)
	assert(type(list) == "table", "Bad argument #1 to Promise.fold: must be a table")
	assert(type(callback) == "function", "Bad argument #2 to Promise.fold: must be a function")

	local accumulator = Promise.resolve(initialValue)
	return Promise.each(list, function(resolvedElement, i)
		accumulator = accumulator:andThen(function(previousValueResolved)
			return callback(previousValueResolved, resolvedElement, i)
		end)
	end):andThenReturn(accumulator)
end

function Promise.some(promises, amount)
	assert(type(amount) == "number", "Bad argument #2 to Promise.some: must be a number")

	return Promise._all(debug.traceback(nil, 2), promises, amount)
end

function Promise.any(promises)
	return Promise._all(debug.traceback(nil, 2), promises, 1):andThen(function(values)
		return values[1]
	end)
end

function Promise.allSettled(promises)
	if type(promises) ~= "table" then
		error(string.format(ERROR_NON_LIST, "Promise.allSettled"), 2)
	end

	-- We need to check that each value is a promise here so that we can produce
	-- a proper error rather than a rejected promise with our error.
	for i, promise in pairs(promises) do
		if not Promise.is(promise) then
			error(string.format(ERROR_NON_PROMISE_IN_LIST, "Promise.allSettled", tostring(i)), 2)
		end
	end

	-- If there are no values then return an already resolved promise.
	if #promises == 0 then
		return Promise.resolve({})
	end

	return Promise._new(debug.traceback(nil, 2), function(resolve, _, onCancel)
		-- An array to contain our resolved values from the given promises.
		local fates = {}
		local newPromises = {}

		-- Keep a count of resolved promises because just checking the resolved
		-- values length wouldn't account for promises that resolve with nil.
		local finishedCount = 0

		-- Called when a single value is resolved and resolves if all are done.
		local function resolveOne(i, ...)
			finishedCount = finishedCount + 1

			fates[i] = ...

			if finishedCount >= #promises then
				resolve(fates)
			end
		end

		onCancel(function()
			for _, promise in ipairs(newPromises) do
				promise:cancel()
			end
		end)

		-- We can assume the values inside `promises` are all promises since we
		-- checked above.
		for i, promise in ipairs(promises) do
			newPromises[i] = promise:finally(
				function(...)
					resolveOne(i, ...)
				end
			)
		end
	end)
end

--[[
	Races a set of Promises and returns the first one that resolves,
	cancelling the others.
]]
function Promise.race(promises)
	assert(type(promises) == "table", string.format(ERROR_NON_LIST, "Promise.race"))

	for i, promise in pairs(promises) do
		assert(Promise.is(promise), string.format(ERROR_NON_PROMISE_IN_LIST, "Promise.race", tostring(i)))
	end

	return Promise._new(debug.traceback(nil, 2), function(resolve, reject, onCancel)
		local newPromises = {}
		local finished = false

		local function cancel()
			for _, promise in ipairs(newPromises) do
				promise:cancel()
			end
		end

		local function finalize(callback)
			return function (...)
				cancel()
				finished = true
				return callback(...)
			end
		end

		if onCancel(finalize(reject)) then
			return
		end

		for i, promise in ipairs(promises) do
			newPromises[i] = promise:andThen(finalize(resolve), finalize(reject))
		end

		if finished then
			cancel()
		end
	end)
end

--[[
	Iterates serially over the given an array of values, calling the predicate callback on each before continuing.
	If the predicate returns a Promise, we wait for that Promise to resolve before continuing to the next item
	in the array. If the Promise the predicate returns rejects, the Promise from Promise.each is also rejected with
	the same value.

	Returns a Promise containing an array of the return values from the predicate for each item in the original list.
]]
function Promise.each(list, predicate)
	assert(type(list) == "table", string.format(ERROR_NON_LIST, "Promise.each"))
	assert(type(predicate) == "function", string.format(ERROR_NON_FUNCTION, "Promise.each"))

	return Promise._new(debug.traceback(nil, 2), function(resolve, reject, onCancel)
		local results = {}
		local promisesToCancel = {}

		local cancelled = false

		local function cancel()
			for _, promiseToCancel in ipairs(promisesToCancel) do
				promiseToCancel:cancel()
			end
		end

		onCancel(function()
			cancelled = true

			cancel()
		end)

		-- We need to preprocess the list of values and look for Promises.
		-- If we find some, we must register our andThen calls now, so that those Promises have a consumer
		-- from us registered. If we don't do this, those Promises might get cancelled by something else
		-- before we get to them in the series because it's not possible to tell that we plan to use it
		-- unless we indicate it here.

		local preprocessedList = {}

		for index, value in ipairs(list) do
			if Promise.is(value) then
				if value:getStatus() == Promise.Status.Cancelled then
					cancel()
					return reject(Error.new({
						error = "Promise is cancelled",
						kind = Error.Kind.AlreadyCancelled,
						context = string.format(
							"The Promise that was part of the array at index %d passed into Promise.each was already cancelled when Promise.each began.\n\nThat Promise was created at:\n\n%s",
							index,
							value._source
						),
					}))
				elseif value:getStatus() == Promise.Status.Rejected then
					cancel()
					return reject(select(2, value:await()))
				end

				-- Chain a new Promise from this one so we only cancel ours
				local ourPromise = value:andThen(function(...)
					return ...
				end)

				table.insert(promisesToCancel, ourPromise)
				preprocessedList[index] = ourPromise
			else
				preprocessedList[index] = value
			end
		end

		for index, value in ipairs(preprocessedList) do
			if Promise.is(value) then
				local success
				success, value = value:await()

				if not success then
					cancel()
					return reject(value)
				end
			end

			if cancelled then
				return
			end

			local predicatePromise = Promise.resolve(predicate(value, index))

			table.insert(promisesToCancel, predicatePromise)

			local success, result = predicatePromise:await()

			if not success then
				cancel()
				return reject(result)
			end

			results[index] = result
		end

		resolve(results)
	end)
end

--[[
	Is the given object a Promise instance?
]]
function Promise.is(object)
	if type(object) ~= "table" then
		return false
	end

	local objectMetatable = getmetatable(object)

	if objectMetatable == Promise then
		-- The Promise came from this library.
		return true
	elseif objectMetatable == nil then
		-- No metatable, but we should still chain onto tables with andThen methods
		return type(object.andThen) == "function"
	elseif
		type(objectMetatable) == "table"
		and type(rawget(objectMetatable, "__index")) == "table"
		and type(rawget(rawget(objectMetatable, "__index"), "andThen")) == "function"
	then
		-- Maybe this came from a different or older Promise library.
		return true
	end

	return false
end

--[[
	Converts a yielding function into a Promise-returning one.
]]
function Promise.promisify(callback)
	return function(...)
		return Promise._try(debug.traceback(nil, 2), callback, ...)
	end
end

--[[
	Creates a Promise that resolves after given number of seconds.
]]
do
	-- uses a sorted doubly linked list (queue) to achieve O(1) remove operations and O(n) for insert

	-- the initial node in the linked list
	local first
	local connection

	function Promise.delay(seconds)
		assert(type(seconds) == "number", "Bad argument #1 to Promise.delay, must be a number.")
		-- If seconds is -INF, INF, NaN, or less than 1 / 60, assume seconds is 1 / 60.
		-- This mirrors the behavior of wait()
		if not (seconds >= 1 / 60) or seconds == math.huge then
			seconds = 1 / 60
		end

		return Promise._new(debug.traceback(nil, 2), function(resolve, _, onCancel)
			local startTime = Promise._getTime()
			local endTime = startTime + seconds

			local node = {
				resolve = resolve,
				startTime = startTime,
				endTime = endTime,
			}

			if connection == nil then -- first is nil when connection is nil
				first = node
				connection = Promise._timeEvent:Connect(function()
					local threadStart = Promise._getTime()

					while first ~= nil and first.endTime < threadStart do
						local current = first
						first = current.next

						if first == nil then
							connection:Disconnect()
							connection = nil
						else
							first.previous = nil
						end

						current.resolve(Promise._getTime() - current.startTime)
					end
				end)
			else -- first is non-nil
				if first.endTime < endTime then -- if `node` should be placed after `first`
					-- we will insert `node` between `current` and `next`
					-- (i.e. after `current` if `next` is nil)
					local current = first
					local next = current.next

					while next ~= nil and next.endTime < endTime do
						current = next
						next = current.next
					end

					-- `current` must be non-nil, but `next` could be `nil` (i.e. last item in list)
					current.next = node
					node.previous = current

					if next ~= nil then
						node.next = next
						next.previous = node
					end
				else
					-- set `node` to `first`
					node.next = first
					first.previous = node
					first = node
				end
			end

			onCancel(function()
				-- remove node from queue
				local next = node.next

				if first == node then
					if next == nil then -- if `node` is the first and last
						connection:Disconnect()
						connection = nil
					else -- if `node` is `first` and not the last
						next.previous = nil
					end
					first = next
				else
					local previous = node.previous
					-- since `node` is not `first`, then we know `previous` is non-nil
					previous.next = next

					if next ~= nil then
						next.previous = previous
					end
				end
			end)
		end)
	end
end

--[[
	Rejects the promise after `seconds` seconds.
]]
function Promise.prototype:timeout(seconds, rejectionValue)
	local traceback = debug.traceback(nil, 2)

	return Promise.race({
		Promise.delay(seconds):andThen(function()
			return Promise.reject(rejectionValue == nil and Error.new({
				kind = Error.Kind.TimedOut,
				error = "Timed out",
				context = string.format(
					"Timeout of %d seconds exceeded.\n:timeout() called at:\n\n%s",
					seconds,
					traceback
				),
			}) or rejectionValue)
		end),
		self,
	})
end

function Promise.prototype:getStatus()
	return self._status
end

--[[
	Creates a new promise that receives the result of this promise.

	The given callbacks are invoked depending on that result.
]]
function Promise.prototype:_andThen(traceback, successHandler, failureHandler)
	self._unhandledRejection = false

	-- Create a new promise to follow this part of the chain
	return Promise._new(traceback, function(resolve, reject)
		-- Our default callbacks just pass values onto the next promise.
		-- This lets success and failure cascade correctly!

		local successCallback = resolve
		if successHandler then
			successCallback = createAdvancer(
				traceback,
				successHandler,
				resolve,
				reject
			)
		end

		local failureCallback = reject
		if failureHandler then
			failureCallback = createAdvancer(
				traceback,
				failureHandler,
				resolve,
				reject
			)
		end

		if self._status == Promise.Status.Started then
			-- If we haven't resolved yet, put ourselves into the queue
			table.insert(self._queuedResolve, successCallback)
			table.insert(self._queuedReject, failureCallback)
		elseif self._status == Promise.Status.Resolved then
			-- This promise has already resolved! Trigger success immediately.
			successCallback(unpack(self._values, 1, self._valuesLength))
		elseif self._status == Promise.Status.Rejected then
			-- This promise died a terrible death! Trigger failure immediately.
			failureCallback(unpack(self._values, 1, self._valuesLength))
		elseif self._status == Promise.Status.Cancelled then
			-- We don't want to call the success handler or the failure handler,
			-- we just reject this promise outright.
			reject(Error.new({
				error = "Promise is cancelled",
				kind = Error.Kind.AlreadyCancelled,
				context = "Promise created at\n\n" .. traceback,
			}))
		end
	end, self)
end

function Promise.prototype:andThen(successHandler, failureHandler)
	assert(
		successHandler == nil or type(successHandler) == "function",
		string.format(ERROR_NON_FUNCTION, "Promise:andThen")
	)
	assert(
		failureHandler == nil or type(failureHandler) == "function",
		string.format(ERROR_NON_FUNCTION, "Promise:andThen")
	)

	return self:_andThen(debug.traceback(nil, 2), successHandler, failureHandler)
end

--[[
	Used to catch any errors that may have occurred in the promise.
]]
function Promise.prototype:catch(failureCallback)
	assert(
		failureCallback == nil or type(failureCallback) == "function",
		string.format(ERROR_NON_FUNCTION, "Promise:catch")
	)
	return self:_andThen(debug.traceback(nil, 2), nil, failureCallback)
end

--[[
	Like andThen, but the value passed into the handler is also the
	value returned from the handler.
]]
function Promise.prototype:tap(tapCallback)
	assert(type(tapCallback) == "function", string.format(ERROR_NON_FUNCTION, "Promise:tap"))
	return self:_andThen(debug.traceback(nil, 2), function(...)
		local callbackReturn = tapCallback(...)

		if Promise.is(callbackReturn) then
			local length, values = pack(...)
			return callbackReturn:andThen(function()
				return unpack(values, 1, length)
			end)
		end

		return ...
	end)
end

--[[
	Calls a callback on `andThen` with specific arguments.
]]
function Promise.prototype:andThenCall(callback, ...)
	assert(type(callback) == "function", string.format(ERROR_NON_FUNCTION, "Promise:andThenCall"))
	local length, values = pack(...)
	return self:_andThen(debug.traceback(nil, 2), function()
		return callback(unpack(values, 1, length))
	end)
end

--[[
	Shorthand for an andThen handler that returns the given value.
]]
function Promise.prototype:andThenReturn(...)
	local length, values = pack(...)
	return self:_andThen(debug.traceback(nil, 2), function()
		return unpack(values, 1, length)
	end)
end

--[[
	Cancels the promise, disallowing it from rejecting or resolving, and calls
	the cancellation hook if provided.
]]
function Promise.prototype:cancel()
	if self._status ~= Promise.Status.Started then
		return
	end

	self._status = Promise.Status.Cancelled

	if self._cancellationHook then
		self._cancellationHook()
	end

	if self._parent then
		self._parent:_consumerCancelled(self)
	end

	for child in pairs(self._consumers) do
		child:cancel()
	end

	self:_finalize()
end

--[[
	Used to decrease the number of consumers by 1, and if there are no more,
	cancel this promise.
]]
function Promise.prototype:_consumerCancelled(consumer)
	if self._status ~= Promise.Status.Started then
		return
	end

	self._consumers[consumer] = nil

	if next(self._consumers) == nil then
		self:cancel()
	end
end

--[[
	Used to set a handler for when the promise resolves, rejects, or is
	cancelled. Returns a new promise chained from this promise.
]]
function Promise.prototype:_finally(traceback, finallyHandler, onlyOk)
	if not onlyOk then
		self._unhandledRejection = false
	end

	-- Return a promise chained off of this promise
	return Promise._new(traceback, function(resolve, reject)
		local finallyCallback = resolve
		if finallyHandler then
			finallyCallback = createAdvancer(
				traceback,
				finallyHandler,
				resolve,
				reject
			)
		end

		if onlyOk then
			local callback = finallyCallback
			finallyCallback = function(...)
				if self._status == Promise.Status.Rejected then
					return resolve(self)
				end

				return callback(...)
			end
		end

		if self._status == Promise.Status.Started then
			-- The promise is not settled, so queue this.
			table.insert(self._queuedFinally, finallyCallback)
		else
			-- The promise already settled or was cancelled, run the callback now.
			finallyCallback(self._status)
		end
	end, self)
end

function Promise.prototype:finally(finallyHandler)
	assert(
		finallyHandler == nil or type(finallyHandler) == "function",
		string.format(ERROR_NON_FUNCTION, "Promise:finally")
	)
	return self:_finally(debug.traceback(nil, 2), finallyHandler)
end

--[[
	Calls a callback on `finally` with specific arguments.
]]
function Promise.prototype:finallyCall(callback, ...)
	assert(type(callback) == "function", string.format(ERROR_NON_FUNCTION, "Promise:finallyCall"))
	local length, values = pack(...)
	return self:_finally(debug.traceback(nil, 2), function()
		return callback(unpack(values, 1, length))
	end)
end

--[[
	Shorthand for a finally handler that returns the given value.
]]
function Promise.prototype:finallyReturn(...)
	local length, values = pack(...)
	return self:_finally(debug.traceback(nil, 2), function()
		return unpack(values, 1, length)
	end)
end

--[[
	Similar to finally, except rejections are propagated through it.
]]
function Promise.prototype:done(finallyHandler)
	assert(
		finallyHandler == nil or type(finallyHandler) == "function",
		string.format(ERROR_NON_FUNCTION, "Promise:done")
	)
	return self:_finally(debug.traceback(nil, 2), finallyHandler, true)
end

--[[
	Calls a callback on `done` with specific arguments.
]]
function Promise.prototype:doneCall(callback, ...)
	assert(type(callback) == "function", string.format(ERROR_NON_FUNCTION, "Promise:doneCall"))
	local length, values = pack(...)
	return self:_finally(debug.traceback(nil, 2), function()
		return callback(unpack(values, 1, length))
	end, true)
end

--[[
	Shorthand for a done handler that returns the given value.
]]
function Promise.prototype:doneReturn(...)
	local length, values = pack(...)
	return self:_finally(debug.traceback(nil, 2), function()
		return unpack(values, 1, length)
	end, true)
end

--[[
	Yield until the promise is completed.

	This matches the execution model of normal Roblox functions.
]]
function Promise.prototype:awaitStatus()
	self._unhandledRejection = false

	if self._status == Promise.Status.Started then
		local bindable = Instance.new("BindableEvent")

		self:finally(function()
			bindable:Fire()
		end)

		bindable.Event:Wait()
		bindable:Destroy()
	end

	if self._status == Promise.Status.Resolved then
		return self._status, unpack(self._values, 1, self._valuesLength)
	elseif self._status == Promise.Status.Rejected then
		return self._status, unpack(self._values, 1, self._valuesLength)
	end

	return self._status
end

local function awaitHelper(status, ...)
	return status == Promise.Status.Resolved, ...
end

--[[
	Calls awaitStatus internally, returns (isResolved, values...)
]]
function Promise.prototype:await()
	return awaitHelper(self:awaitStatus())
end

local function expectHelper(status, ...)
	if status ~= Promise.Status.Resolved then
		error((...) == nil and "Expected Promise rejected with no value." or (...), 3)
	end

	return ...
end

--[[
	Calls await and only returns if the Promise resolves.
	Throws if the Promise rejects or gets cancelled.
]]
function Promise.prototype:expect()
	return expectHelper(self:awaitStatus())
end

-- Backwards compatibility
Promise.prototype.awaitValue = Promise.prototype.expect

--[[
	Intended for use in tests.

	Similar to await(), but instead of yielding if the promise is unresolved,
	_unwrap will throw. This indicates an assumption that a promise has
	resolved.
]]
function Promise.prototype:_unwrap()
	if self._status == Promise.Status.Started then
		error("Promise has not resolved or rejected.", 2)
	end

	local success = self._status == Promise.Status.Resolved

	return success, unpack(self._values, 1, self._valuesLength)
end

function Promise.prototype:_resolve(...)
	if self._status ~= Promise.Status.Started then
		if Promise.is((...)) then
			(...):_consumerCancelled(self)
		end
		return
	end

	-- If the resolved value was a Promise, we chain onto it!
	if Promise.is((...)) then
		-- Without this warning, arguments sometimes mysteriously disappear
		if select("#", ...) > 1 then
			local message = string.format(
				"When returning a Promise from andThen, extra arguments are " ..
				"discarded! See:\n\n%s",
				self._source
			)
			warn(message)
		end

		local chainedPromise = ...

		local promise = chainedPromise:andThen(
			function(...)
				self:_resolve(...)
			end,
			function(...)
				local maybeRuntimeError = chainedPromise._values[1]

				-- Backwards compatibility < v2
				if chainedPromise._error then
					maybeRuntimeError = Error.new({
						error = chainedPromise._error,
						kind = Error.Kind.ExecutionError,
						context = "[No stack trace available as this Promise originated from an older version of the Promise library (< v2)]",
					})
				end

				if Error.isKind(maybeRuntimeError, Error.Kind.ExecutionError) then
					return self:_reject(maybeRuntimeError:extend({
						error = "This Promise was chained to a Promise that errored.",
						trace = "",
						context = string.format(
							"The Promise at:\n\n%s\n...Rejected because it was chained to the following Promise, which encountered an error:\n",
							self._source
						),
					}))
				end

				self:_reject(...)
			end
		)

		if promise._status == Promise.Status.Cancelled then
			self:cancel()
		elseif promise._status == Promise.Status.Started then
			-- Adopt ourselves into promise for cancellation propagation.
			self._parent = promise
			promise._consumers[self] = true
		end

		return
	end

	self._status = Promise.Status.Resolved
	self._valuesLength, self._values = pack(...)

	-- We assume that these callbacks will not throw errors.
	for _, callback in ipairs(self._queuedResolve) do
		coroutine.wrap(callback)(...)
	end

	self:_finalize()
end

function Promise.prototype:_reject(...)
	if self._status ~= Promise.Status.Started then
		return
	end

	self._status = Promise.Status.Rejected
	self._valuesLength, self._values = pack(...)

	-- If there are any rejection handlers, call those!
	if not isEmpty(self._queuedReject) then
		-- We assume that these callbacks will not throw errors.
		for _, callback in ipairs(self._queuedReject) do
			coroutine.wrap(callback)(...)
		end
	else
		-- At this point, no one was able to observe the error.
		-- An error handler might still be attached if the error occurred
		-- synchronously. We'll wait one tick, and if there are still no
		-- observers, then we should put a message in the console.

		local err = tostring((...))

		coroutine.wrap(function()
			Promise._timeEvent:Wait()

			-- Someone observed the error, hooray!
			if not self._unhandledRejection then
				return
			end

			-- Build a reasonable message
			local message = string.format(
				"Unhandled Promise rejection:\n\n%s\n\n%s",
				err,
				self._source
			)

			if Promise.TEST then
				-- Don't spam output when we're running tests.
				return
			end

			warn(message)
		end)()
	end

	self:_finalize()
end

--[[
	Calls any :finally handlers. We need this to be a separate method and
	queue because we must call all of the finally callbacks upon a success,
	failure, *and* cancellation.
]]
function Promise.prototype:_finalize()
	for _, callback in ipairs(self._queuedFinally) do
		-- Purposefully not passing values to callbacks here, as it could be the
		-- resolved values, or rejected errors. If the developer needs the values,
		-- they should use :andThen or :catch explicitly.
		coroutine.wrap(callback)(self._status)
	end

	self._queuedFinally = nil
	self._queuedReject = nil
	self._queuedResolve = nil

	-- Clear references to other Promises to allow gc
	if not Promise.TEST then
		self._parent = nil
		self._consumers = nil
	end
end

--[[
	Chains a Promise from this one that is resolved if this Promise is
	resolved, and rejected if it is not resolved.
]]
function Promise.prototype:now(rejectionValue)
	local traceback = debug.traceback(nil, 2)
	if self:getStatus() == Promise.Status.Resolved then
		return self:_andThen(traceback, function(...)
			return ...
		end)
	else
		return Promise.reject(rejectionValue == nil and Error.new({
			kind = Error.Kind.NotResolvedInTime,
			error = "This Promise was not resolved in time for :now()",
			context = ":now() was called at:\n\n" .. traceback,
		}) or rejectionValue)
	end
end

--[[
	Retries a Promise-returning callback N times until it succeeds.
]]
function Promise.retry(callback, times, ...)
	assert(type(callback) == "function", "Parameter #1 to Promise.retry must be a function")
	assert(type(times) == "number", "Parameter #2 to Promise.retry must be a number")

	local args, length = {...}, select("#", ...)

	return Promise.resolve(callback(...)):catch(function(...)
		if times > 0 then
			return Promise.retry(callback, times - 1, unpack(args, 1, length))
		else
			return Promise.reject(...)
		end
	end)
end

--[[
	Converts an event into a Promise with an optional predicate
]]
function Promise.fromEvent(event, predicate)
	predicate = predicate or function()
		return true
	end

	return Promise._new(debug.traceback(nil, 2), function(resolve, reject, onCancel)
		local connection
		local shouldDisconnect = false

		local function disconnect()
			connection:Disconnect()
			connection = nil
		end

		-- We use shouldDisconnect because if the callback given to Connect is called before
		-- Connect returns, connection will still be nil. This happens with events that queue up
		-- events when there's nothing connected, such as RemoteEvents

		connection = event:Connect(function(...)
			local callbackValue = predicate(...)

			if callbackValue == true then
				resolve(...)

				if connection then
					disconnect()
				else
					shouldDisconnect = true
				end
			elseif type(callbackValue) ~= "boolean" then
				error("Promise.fromEvent predicate should always return a boolean")
			end
		end)

		if shouldDisconnect and connection then
			return disconnect()
		end

		onCancel(function()
			disconnect()
		end)
	end)
end

return Promise