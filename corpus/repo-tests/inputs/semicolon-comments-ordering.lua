local foo = a <= b --[[ some block comment ]]; -- inline comment
fn() --[[ some block comment 2 ]]; -- inline comment 2
