local foooooooooooooo = { "barrrrrrrrrrrrrrrrrrrrrrrrrrrrrrrrrrrrrrrrrrrrrrrrrrrrrrrrrrrrrrrrrrrrrrrrrrrrrrrrrrrrrrrrrrrrrrrrrrrrrrrrrrrrr" .. "bazzzzzzzzzzzzzzzzzzzzzzzzzzzzzzzzzzzzzzzzzzzzzzzzzzzzzzzzzzz"}

local barrrrrrrrrrrrr = { foooooooooooooooooo = "barrrrrrrrrrrrrrrrrrrrrrrrrrrrrrrrrrrrrrrrrrrrrrr" .. "bazzzzzzzzzzzzzzzzzzzzzzzzzzzzzzzzzzzzzzzzzzzzzzzzzzzzzzzz"}

local bazzzzzzzzzzzzzz = { [foo()] = "barrrrrrrrrrrrrrrrrrrrrrrrrrrrrrrrrrrrrrrrrrrrrrr" .. "bazzzzzzzzzzzzzzzzzzzzzzzzzzzzzzzzzzzzzzzzzzzzzzzzzzzzzzzzzzzzzzzzzzzzzz"}