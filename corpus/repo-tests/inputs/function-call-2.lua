local App = Roact.createElement("Frame", {
	Size = UDim2.new(0,0,0,0),
	Position = UDim2.new(0,0,0,0)
}, {
	Child1 = Roact.createElement("TextLabel", {
		Text = "foo",
		AnchorPoint = Vector2.new(0, 0), -- comment
		foo = bar
	}),

	Child2 = Roact.createElement("TextLabel", {
		Text = "foo",
		AnchorPoint = Vector2.new(0, 0),
		foo = bar
	}),
})

doSomething({
	aLongKey = aLongValue,
	anotherLongKey = anotherLongValue
}, notATableLiteral, {
	aLongKey = anotherLongValue,
	anotherLongKey = aLongValue
})

table.sort(recommendedDeveloperProducts, function(a, b)
	return a.amount < b.amount
end)