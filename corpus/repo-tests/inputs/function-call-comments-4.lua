-- https://github.com/JohnnyMorganz/StyLua/issues/648
function foo(f, g, a, b, c)
	return f(a)
		or g(b and c
			-- a somewhat strange location to describe something
			or false
			-- yes, this newline might not have been intended
		)
end
