-- https://github.com/JohnnyMorganz/StyLua/issues/307#issuecomment-980594322
call(
	param_a -- this is cool
	, param_b
)
