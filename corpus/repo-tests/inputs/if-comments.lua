if true then
	-- foo
elseif bar then
	-- bar
else
	-- baz
end