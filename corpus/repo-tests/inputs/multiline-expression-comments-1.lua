-- https://github.com/JohnnyMorganz/StyLua/issues/524
if ( object == "linebreak" or	--Force a new line
	type(object) == "table" and	--Make sure this is an actual object before checking further.
	((container.flowMaxPerLine and currentPrimaryLine > container.flowMaxPerLine) or	--We went past the max number of columns
		currentSecondaryOffset + object["Get"..primaryDirection](object) > container["Get"..primaryDirection](container)) ) then	--We went past the max pixel width.
end

if ( name and
	((not strictFiltering) and
		( tokenTable[subgroup] or tokenTable[className] or (role and tokenTable[role]) or tokenTable[assignedRole] ) -- non-strict filtering
	) or
		( tokenTable[subgroup] and tokenTable[className] and ((role and tokenTable[role]) or tokenTable[assignedRole]) ) -- strict filtering
) then

end
