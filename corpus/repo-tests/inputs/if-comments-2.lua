-- https://github.com/JohnnyMorganz/StyLua/issues/254
if condition1 then
	print("Do something")

--[[
	my multiline comment
]]
elseif condition2 then
	print("Do something else")

-- my single line comment
elseif condition3 then
	print("Do some final thing")
end

if condition then
	-- this comment should be indent
elseif x == true then
-- this comment should not be indented
elseif x == true then
				-- this comment should be indented, but only by one
else
	print("hi")
end
