-- https://github.com/JohnnyMorganz/StyLua/issues/551
local test = {
	{ "http://example.com/b//c//d;p?q#blarg", "http://u:p@h.com/p/a/t/h?s#hash2", "http://u:p@h.com/p/a/t/h?s#hash2" },
}
