-- https://github.com/JohnnyMorganz/StyLua/issues/542
-- https://github.com/JohnnyMorganz/StyLua/issues/541
local thisIsATable = {
	CreateAnElementFromThisTable = SomethingIsSelected and getTheSelectedThing(TheSelectedItem) or getTheSelectedThing(NoItemSelected)
}
