local val = 1 + 2+ 1 -- add
foo = bar or #baz -- test
local foo = bar or (baz and foo) -- test

-- Stop Movement
if
	-- Moved for at least 0.1 seconds
	((tick() - Player.PlayerDataLocal.IsRunningTimeStamp.Value) > 0.1) and     -- Speed is less than threshold
	(Utility.Vec3XZLengthSquared(Player.Character.PrimaryPart.Velocity) <= RunThresholdSpeedSqr)
then --0.01
	Player.PlayerDataLocal.IsRunning.Value = false
end