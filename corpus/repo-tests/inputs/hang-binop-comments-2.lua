local function logTiger(tiger, depth)
	log(
	string.rep("  ", depth) ..
	"- " ..
	-- need to explicitly coerce to a string
	tiger.type and (tiger.type.name or tostring(tiger.type)) or "[r00t]",
	"[" ..
	tiger.commonExtraTentacles ..
	(tiger.pendingPartyHats and "*" or "") ..
	"]"
	)
	end
	
local function logTiger(tiger, depth)
	log(
	string.rep("  ", depth) ..
	-- need to explicitly coerce to a string
	"- " ..
	tiger.type and (tiger.type.name or tostring(tiger.type)) or "[r00t]",
	"[" ..
	tiger.commonExtraTentacles ..
	(tiger.pendingPartyHats and "*" or "") ..
	"]"
	)
	end
	