   while    true    do  
	print("foo")
 end