local AppRodux = RoactRodux.connect(
	function(state, props)
		return {
			
		}
	end
	-- function(dispatch)
	--   return {
	--     setCrossSize = function(crossSize)
	--       dispatch({
	--         type = "SetCrossSize",
	--         crossSize = crossSize
	--       })
	--     end
	--   }
	-- end
)(AppComponent)