("foooooooooooooooooooooooooooooooooooooooooooooooooooooooooooooooo" .. "barrrrrrrrrrrrrrrrrrrrrrrrrrrrrrrrrrrrrrrrrrrrrrr"):format()

do
	("foooooooooooooooooooooooooooooooooooooooooooooooooooooooooooooooo" .. "barrrrrrrrrrrrrrrrrrrrrrrrrrrrrrrrrrrrrrrrrrrrrrr"):format()
end

print(("foooooooooooooooooooooooooooooooooooooooooooooooooooooooooooooooo" .. "barrrrrrrrrrrrrrrrrrrrrrrrrrrrrrrrrrrrrrrrrrrrrrr"):format())