local x = -(-foo)
local y = - -foo

local z1 = -(-foo) -- bar
local z2 = - -foo -- baz