local something = fooooooooooooooo == barrrrrrrrrrrr and func(arggggggggggggggggggggggggggggggggggggggggg1, argggggggggg2) or somethingeeeeeeeeeeee
