local      foo    =      'bar'       
local   bar       ,       baz     = 1   ,   2    