Promise.new():andThen(callThis):andThen(function() print("test") end):andThen()

Promise.new():andThen(callThis):andThen({
    true
  }):andThen()

this.is.a.large.start:andThen():andThen(function()
	print("test")
end):andThen()

local f = this:andThen(callThis):andThen({
	true
}).X.Y.Z

this:andThen(callThis):andThen({
	true
}).X.Y.Z:andThen():andThen()

function foo()
	Promise.new():andThen(callThis):andThen(function() print("test") end):andThen()
end

local x = {
	promise = Promise.new():andThen(callThis):andThen(function() print("test") end):andThen()
}