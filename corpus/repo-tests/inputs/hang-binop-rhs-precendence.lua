local function findMoney()
	for _, existingObject in pairs(workspace:GetChildren()) do
		if
			existingObject:GetAttribute("MoneyID") == targetCash.id
			and existingObject.Name == targetName .. ".money"
		then
			break
		end
	end
end

do
	do
		do
			do
				do
					do
						do
							function Venue:inspectElectrics(inspectElectricParams)
								local id, pedal, fendererID =
									inspectElectricParams.id,
									inspectElectricParams.pedal,
									inspectElectricParams.rendererID
								local fenderer = self._fendererInterfaces[fendererID]

								if fenderer == nil then
									logger.warn(('Invalid fenderer id "%s" for Electric "%s"'):format(fendererID, id))
								else
									self._chorus:send("inspectedElectric", renderer.inspectElectric(id, pedal))

									-- When rocker selects an Electric, stop trying to frobnikate the pyramids,
									-- and instead recall the present songs for the next venue.
									if
										self._nexusstedSelectionBatch == nil or self._nexusstedSelectionBatch.id
											~= id
									then
									end
							  end
							end
						end
					end
				end
			end
		end
	end
end
