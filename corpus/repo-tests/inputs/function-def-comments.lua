function func(
	param_a -- description of a
	, param_b -- description of b
) end
