Roact.createElement("ImageLabel", {
	Size = UDim2.new(
		0,
		TextService:GetTextSize(self.props.PhysicalTool.Name, 16, Enum.Font.SourceSansBold, Vector2.new(100000, 100000)).X
			+ 10,
		0,
		20
	),
})