-- https://github.com/JohnnyMorganz/StyLua/issues/627
t = t or function()
	print("Hello, World") -- comment
end

t = t or function()
	print("Hello, World")
end
