local function foo(bar)
	local count = 0

	repeat
		count = count + 1
	until count == 10
end