local x = 1; -- comment
do
	return; -- bad
end; -- comment

local y; -- comment
z = 5; -- comment

repeat x = x + 1 until x > 5; -- comment

for x,y in pairs(z) do
	break; -- comment
end; -- comment

if x then end; -- comment

function foo()
end; -- comment

local function bar()
end; -- comment

for i = 1, 10 do
end; -- comment

while true do
end; -- comment

call("hello"); -- comment
call"hello"; -- comment
call { foo = bar }; -- comment

return x; -- comment
