-- https://github.com/JohnnyMorganz/StyLua/issues/302
return function()
	if overrides == nil then
		setupOverrides()
	end

	if overrides[key] == nil then
		return value
	end

	return overrides[key]
end, function(callback)
	overrideWatchers[key] = callback
end
