function foo()
	return (
		long_variable_name
		+ long_variable_name
		+ long_variable_name
		+ long_variable_name
		+ long_variable_name
		+ long_variable_name
		+ long_variable_name
		+ long_variable_name
		+ long_variable_name
		+ long_variable_name
	), (
		long_variable_name
		+ long_variable_name
		+ long_variable_name
		+ long_variable_name
		+ long_variable_name
		+ long_variable_name
		+ long_variable_name
		+ long_variable_name
		+ long_variable_name
		+ long_variable_name
	)
end

function foo()
	return foo and bar or baz, (
		long_variable_name
		+ long_variable_name
		+ long_variable_name
		+ long_variable_name
		+ long_variable_name
		+ long_variable_name
		+ long_variable_name
		+ long_variable_name
		+ long_variable_name
		+ long_variable_name
	)
end

function foo()
	return not (
		long_variable_name
		+ long_variable_name
		+ long_variable_name
		+ long_variable_name
		+ long_variable_name
		+ long_variable_name
		+ long_variable_name
		+ long_variable_name
		+ long_variable_name
		+ long_variable_name
	)
end
