local foo = {"bar", "baz", "foo", "bar", "baz", "foo", "bar", "baz", "foo", "bar", "baz", "foo", "bar", "baz", "foo", "bar", "baz"}

local foo = {"bar", "baz", "foo", "bar", "baz", "foo",
	"bar", "baz", "foo", "bar", "baz", "foo", "bar",
	"baz", "foo", "bar", "baz", "foo", "bar", "baz"}

local foo = {

}