function foo()
	while NextFreq.Access ~= true and not Llama.List.find(NextFreq.Access, Players.LocalPlayer.Team.Name) and NextIndex > #Constants.RADIO_CHANNEL_ORDER do
		print("test")
	end
end