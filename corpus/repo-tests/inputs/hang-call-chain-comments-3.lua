-- https://github.com/JohnnyMorganz/StyLua/issues/890

build(): -- comment
init():start()