local function system(world)
	for id, model, lasering, transform in world:query(Components.Model, Components.Lasering, Components.Transform, Components.Mothership) do
	end
end

local function system(world)
	for id, model, lasering, transform, id, model, lasering, transform, id, model, lasering, transform, id, model, lasering, transform in world:query(Components.Model, Components.Lasering, Components.Transform, Components.Mothership) do
	end
end

local function system(world)
	for id, model, lasering, transform, id, model, lasering, transform, id, model, lasering, transform, id, model, lasering, transform in world:query(Components.Model, Components.Lasering, Components.Transform, Components.Mothership, Components.Mothership) do
	end
end
