local obj = { method1 = function(self) end, method2 = function(self, name) end }

local obj = { method1 = function(self) print(true) end, method2 = function(self, name) end }

local obj = { method1 = function(self) end, method2 = function(self, name) end, method3 = function(self) end, method4 = function(self, name) end, ["some-method"] = function(self) end, ["another-method"] = function(self, name) end, ["some-another-method"] = function(self) end, ["yet-another-method"] = function(self, name) end }