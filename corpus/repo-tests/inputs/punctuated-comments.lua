-- https://github.com/JohnnyMorganz/StyLua/issues/637
function foo()
	return function()
		local x = 1
	end,
	-- comment
	function(newScan)
		scan = newScan
	end
end

function foo()
	local x = function()
		local x = 1
	end,
	-- comment
	function(newScan)
		scan = newScan
	end
end

function foo()
	return function()
		local x = 1
	end,

	-- comment
	function(newScan)
		scan = newScan
	end
end

function foo()
	local x = function()
		local x = 1
	end,

	-- comment
	function(newScan)
		scan = newScan
	end
end

