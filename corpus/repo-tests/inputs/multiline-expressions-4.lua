function SetCallsign(Player, Callsign)
	if Settings.PolicingSetup.Radio or (table.find(Settings.PolicingSetup.CallsignPrefix, string.sub(Callsign, 1, 2)) and tonumber(string.sub(Callsign, 3, 4))) then
		Player:SetAttribute("Callsign", Callsign)
	end
end