-- https://github.com/JohnnyMorganz/StyLua/issues/500
local foo = bar
  -- comment 1
  .fizz
  -- comment 2
  .buzz
