-- https://github.com/JohnnyMorganz/StyLua/issues/605
function foo()
	return
		delta.tag == Band or
		delta.tag == Drum or
		delta.tag == Bass
end

function foo()
	return
		delta.tag == Band or
		delta.tag == Drum or
		delta.tag == Bass or
		delta.tag == Lol or
		delta.tag == Hello or
		delta.tag == Drum or
		delta.tag == Bass
end
