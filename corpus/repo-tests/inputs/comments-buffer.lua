local foo_result = foo( --a comment
	"oof"
)

local expr_result = 1 + 2 + 3 + 4 + 5 --a comment
	+ 6 + 6 + 8

print"text" --a comment
foo{bar = baz} -- comment

for foo, -- test
bar in 
next, -- comment
value
do
	print("test", -- comment
		"foo"
	)
end

if code == 9 -- \t
or code == 32 -- <space>
   then
    print(code)
end

return foo, -- a comment
bar