setmetatable({
	_words = words,
	_morewords = words,
	_evenmorewords = words,
	_words = words,
	_morewords = words,
	_evenmorewords = words,
}, Class)

foo({
	foo = bar,
}, baz, {
	bar = baz,
})

Roact.createElement("Frame", {
	foo = bar, bar = baz,
}, self.props[Roact.Children])