return cframe
	-- Clamp & transform into world space
	* Vector3.new(
		math.clamp(transform.X, -halfSize.X, halfSize.X),
		math.clamp(transform.Y, -halfSize.Y, halfSize.Y),
		math.clamp(transform.Z, -halfSize.Z, halfSize.Z)
	), cframe.Position
