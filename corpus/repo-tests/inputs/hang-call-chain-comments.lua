-- A
a = A()

-- B
.B()

-- C
.C()
