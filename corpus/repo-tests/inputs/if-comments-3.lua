if true then
else
end

if true then


	-- this is a comment


-- but this is another comment
	-- and another one - we should hence indent the comments overall
else
end
