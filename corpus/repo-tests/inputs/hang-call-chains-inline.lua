-- https://github.com/JohnnyMorganz/StyLua/pull/476#issuecomment-1166663080
local function interpolateVariables(title, template, index)
    return Array.reduce(
        Array.reduce(Object.keys(template), getMatchingKeyPaths(title), {}), -- aka flatMap
        replaceKeyPathWithValue(template),
        title
    ):gsub(
        "%$#", -- ROBLOX deviation: escaped string
        tostring(index),
        1
    )
end

do
	TweenService:Create(music, TweenInfo.new(1.4, Enum.EasingStyle.Sine, Enum.EasingDirection.InOut), { Volume = 0 }):Play()
end
