-- https://github.com/JohnnyMorganz/StyLua/issues/514
local function escape(str)
	return (str:gsub("\\", "\\\\"):gsub("(%c)%f[0-9]", longControlCharEscapesssssssssssssssssssss):gsub("%c", shortControlCharEscapes))
end

do
	function dec(data)
		data = string.gsub(data, '[^' .. chars .. '=]', '')
		return (data:gsub('.', function(x)
			if (x == '=') then return '' end
			local r, f = '', (chars:find(x) - 1)
			for i=6,1,-1 do r=r..(f%2^i-f%2^(i-1)>0 and '1' or '0') end
			return r;
		end):gsub('%d%d%d?%d?%d?%d?%d?%d?', function(x)
			if (#x ~= 8) then return '' end
			local c=0
			for i=1,8 do c=c+(x:sub(i,i)=='1' and 2^(8-i) or 0) end
			return string.char(c)
		end))
	end
end
