if not (one and two and three and not (four and five) and six and not (seven and eight and nine and ten and eleven and twelve and thirteen and fourteen and fifteen and sixteen and seventeen)) then
	print("foo")
end

local longString = foo(
	"We are wrapping this %s " .. "onto multiple lines " .. "for ease of editing and %d readability" .. "and I continue to extend this string" .. "so it can wrap even further",
	myStringVar,
	myNumberVar
)

return node.kind == Kind.VARIABLE
  or node.kind == Kind.INT
  or node.kind == Kind.FLOAT
  or node.kind == Kind.STRING
  or node.kind == Kind.BOOLEAN
  or node.kind == Kind.NULL
  or node.kind == Kind.ENUM
  or node.kind == Kind.LIST
  or node.kind == Kind.OBJECT