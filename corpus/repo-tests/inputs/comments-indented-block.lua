function foo()
    local x = 1
    local y = 1

    -- comment
end

if foo then
    local x = 1
    -- comment
end