-- https://github.com/JohnnyMorganz/StyLua/issues/290
local foo = foo(

	foo,

	bar
)

local foo = foo(
	foo,

	bar
)

return function()
	call(function()
		local abortSelfPromise = abortSelf(
			function()
				return Promise.resolve(true)
			end,

			function()
				return Promise.new(function(newResolve)
					resolve = newResolve
				end)
			end
		)
	end)
end

