-- https://github.com/JohnnyMorganz/StyLua/issues/386
repeat x = x + 1 until z * (
	x + y -- comment
)

repeat x = x + 1 until z * (
	x + y -- comment
) < 2
