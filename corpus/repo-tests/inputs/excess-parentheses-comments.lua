local foo = (bar) -- test

-- https://github.com/JohnnyMorganz/StyLua/issues/530
call(
	-- comment
	(foo)
)
