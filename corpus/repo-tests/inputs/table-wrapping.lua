local foo = {
    {"foobarbazfoobarbaz", "foobarbazfoobarbaz"},
    {"foobarbazfoobarbaz", "foobarbazfoobarbaz"},
    {"foobarbazfoobarbaz", "foobarbazfoobarbaz"},
    {"foobarbazfoobarbaz", "foobarbazfoobarbaz"}
}