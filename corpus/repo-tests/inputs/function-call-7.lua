-- https://github.com/JohnnyMorganz/StyLua/issues/298
do
	return Roact.createElement(StyleContext.Provider, {
		value = styleObject,
	}, Roact.oneChild(self.props[Roact.Children]))
end
