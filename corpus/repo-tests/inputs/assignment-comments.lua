local isValid =
	-- Allow nil for conditional declaration
	contextType == nil or
	(contextType["$$typeof"] == REACT_CONTEXT_TYPE and
		contextType._context == nil) -- Not a <Context.Consumer>

local isValid = -- Allow nil for conditional declaration
	foo

local isValid = -- test comment
	-- Allow nil for conditional declaration
	contextType == nil or
	(contextType["$$typeof"] == REACT_CONTEXT_TYPE and
		contextType._context == nil) -- Not a <Context.Consumer>

-- https://github.com/JohnnyMorganz/StyLua/issues/340
local useDisposableConcast =
	-- * Refetching uses a disposable Concast to allow refetches using different
	-- options/variables, without permanently altering the options of the
	-- original ObservableQuery.
	newNetworkStatus == NetworkStatus.refetch or
	-- * The fetchMore method does not actually call the reobserve method, but,
	-- if it did, it would definitely use a disposable Concast.
	newNetworkStatus == NetworkStatus.fetchMore or
	-- * Polling uses a disposable Concast so the polling options (which force
	-- fetchPolicy to be "network-only") won't override the original options.
	newNetworkStatus == NetworkSt
