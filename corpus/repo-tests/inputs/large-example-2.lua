--Version 2 1.02 I fixed some problems caused by the updates.
adminlist = {"Person299"}--Add in the names of the people you want to be able to use the command script here.
--Please keep my name in there. ;)
bannedlist = { "someoneyouhate","noob"}--If you want someone not to be able to enter your place, put thier name in here.
texture = ""--If you want someone wearing a certain t-shirt to be an admin, put the t-shirt's texture in here.

--[[
 I update this command script alot, so if you want to get the newest version of the script, go to http://www.roblox.com/Item.aspx?ID=5277383 every once in a while.

If theres anything you think this command script needs, just message me (Person299) and i might put it in. :)
And also, if you find any bugs, report them to me.

The commands are,

commands
Shows a list of all the commands

fix
If the command script breaks for you, say this to fix it

kill/Person299
kills Person299

loopkill/Person299
Repeatedly kills Person299 when he respawns

unloopkill/Person299
Undos loopkill/

heal/Person299
Returns Person299 to full health

damage/Person299/50
Makes Person299's character take 50 damage

health/Person299/999999
Makes Person299's MaxHealth and Health 999999

kick/Person299
Removes Person299 from the game, cannot be used by admin/ed people

ban/Person299
Removes Person299 from the game and keeps him from reenterring, cannot be used by admin/ed people

bannedlist
Shows a list of everyone banned

unban/Person299
Unbans Person299

explode/Person299
Explodes Person299's character

rocket/Person299
Straps a rocket onto Person299's back

removetools/Person299
Removes all of Person299's tools.

givetools/Person299
Gives Person299 all the tools in StarterPack

givebtools/Person299
Gives Person299 the building tools

sit/Person299
Makes Person299 sit

part/4/1/2
Makes a part with the given dimensions appear over your character

respawn/Person299
Makes Person299's character respawn

jail/Person299
Makes a lil jail cell around Person299's character

unjail/Person299
Undos jail/

punish/Person299
Puts Person299's character in game.Lighting

unpunish/Person299
Undos punish/

merge/Person299/Farvei
Makes Person299 control Farvei's character

teleport/Person299/nccvoyager
Teleports Person299's character to nccvoyager's character

control/Person299
Makes you control Person299's character

change/Person299/Money/999999
Makes the Money value in Person299's leaderstats 999999

tools
Gives you a list of all the tools available to be give/en, the tool must be in game.Lighting

give/Person299/Tool
Give's Person299 a tool, the toolname can be abbreviated

time/15.30
Makes game.Lighting.TimeOfDay 15:30

ambient/255/0/0
Makes game.Lighting.Ambient 255,0,0

maxplayers/20
Makes game.Players.MaxPlayers 20

nograv/Person299
Makes Person299 almost weightless

antigrav/Person299
Gives Person299 antigravity properties

grav/Person299
Returns Person299's gravity to normal

highgrav/Person299
Makes Person299 heavier

setgrav/Person299/-196
Sets Person299's gravity

trip/Person299
Makes Person299's character trip

walkspeed/Person299/99
Makes Person299's character's humanoid's WalkSpeed 99, 16 is average

invisible/Person299
Makes Person299's character invisible

visible/Person299
Undos invisible/

freeze/Person299
Makes Person299's character unable to move

thaw/Person299
Undos freeze/

unlock/Person299
Makes Person299's character unlocked

lock/Person299
Makes Person299's character locked

ff/Person299
Gives Person299's character a ForceField

unff/Person299
Undos ff/

sparkles/Person299
Makes Person299's character sparkly

unsparkles/Person299
Undos sparkles/

shield/Person299
Makes a destructive shield thingy appear around Person299

unshield/Person299
Undos shield/

god/Person299
Makes Person299 godish

ungod/Person299
Undos god/

zombify/Person299
Makes Person299 a infecting zombie

admin/Person299
Makes Person299 able to use the command script, cannot be used by admin/ed people

adminlist
Shows a list of everyone in the adminlist

unadmin/Person299
Undos admin/, cannot be used by admin/ed people

shutdown
Shuts the server down, cannot be used by admin/ed people

m/Fallout 2 is one of the best games ever made
Makes a message appear on the screen saying "Fallout 2 is one of the best games ever made" for 2 seconds

h/i like pie
Makes a hint appear on the screen saying "i like pie" for 2 seconds

c/ game.Workspace:remove()
Makes a script which source is whats after c/

clear
Removes all scripts created by c/ and removes all jails.

Capitalisation doesnt matter, and name input can be abbreviated.
Just about any name input can be replaced with multiple names seperated by ","s, me, all, others, guests, admins, nonadmins, random, or team teamname.

--]]

namelist = { }
variablelist = { }
flist = { }

local source = script:FindFirstChild("source")
if source ~= nil then
sbbu = script.source:clone()
sbbu.Disabled = false
else
print("source doesnt exist, your command script may malfunction")
end


tools = Instance.new("Model")
c = game.Lighting:GetChildren()
for i=1,#c do
if c[i].className == "Tool" then
c[i]:clone().Parent = tools
end
if c[i].className == "HopperBin" then
c[i]:clone().Parent = tools
end end

function findplayer(name,speaker)
if string.lower(name) == "all" then
local chars = { }
local c = game.Players:GetChildren()
for i =1,#c do
if c[i].className == "Player" then
table.insert(chars,c[i])
end end
return chars
elseif string.sub(string.lower(name),1,9) == "nonadmins" then
local nnum = 0
local chars = { }
local c = game.Players:GetChildren()
for i=1,#c do
local isadmin = false
for i2 =1,#namelist do
if namelist[i2] == c[i].Name then
isadmin = true
end end 
if isadmin == false then
nnum = nnum + 1
table.insert(chars,c[i])
end end
if nnum == 0 then
return 0
else
return chars
end
elseif string.sub(string.lower(name),1,6) == "admins" then
local anum = 0
local chars = { }
local c = game.Players:GetChildren()
for i=1,#c do
for i2 =1,#namelist do
if namelist[i2] == c[i].Name then
anum = anum + 1
table.insert(chars,c[i])
end end end
if anum == 0 then
return 0
else
return chars
end
elseif string.sub(string.lower(name),1,6) == "random" then
while true do
local c = game.Players:GetChildren()
local r = math.random(1,#c)
if c[r].className == "Player" then
return { c[r] }
end end
elseif string.sub(string.lower(name),1,6) == "guests" then
local gnum = 0
local chars = { }
local c = game.Players:GetChildren()
for i=1,#c do
if string.sub(c[i].Name,1,5) == "Guest" then
gnum = gnum + 1
table.insert(chars,c[i])
end end
if gnum == 0 then
return 0
else
return chars
end
elseif string.sub(string.lower(name),1,5) == "team " then
local theteam = nil
local tnum = 0
if game.Teams ~= nil then
local c = game.Teams:GetChildren()
for i =1,#c do
if c[i].className == "Team" then
if string.find(string.lower(c[i].Name),string.sub(string.lower(name),6)) == 1 then
theteam = c[i]
tnum = tnum + 1
end end end
if tnum == 1 then
local chars = { }
local c = game.Players:GetChildren()
for i =1,#c do
if c[i].className == "Player" then
if c[i].TeamColor == theteam.TeamColor then
table.insert(chars,c[i])
end end end
return chars
end end
return 0
elseif string.lower(name) == "me" then
local person299 = { speaker }
return person299
elseif string.lower(name) == "others" then
local chars = { }
local c = game.Players:GetChildren()
for i =1,#c do
if c[i].className == "Player" then
if c[i] ~= speaker then
table.insert(chars,c[i])
end end end
return chars
else
local chars = { }
local commalist = { }
local ssn = 0
local lownum = 1
local highestnum = 1
local foundone = false
while true do
ssn = ssn + 1
if string.sub(name,ssn,ssn) == "" then
table.insert(commalist,lownum)
table.insert(commalist,ssn - 1)
highestnum = ssn - 1
break
end
if string.sub(name,ssn,ssn) == "," then
foundone = true
table.insert(commalist,lownum)
table.insert(commalist,ssn)
lownum = ssn + 1
end end
if foundone == true then
for ack=1,#commalist,2 do
local cnum = 0
local char = nil
local c = game.Players:GetChildren()
for i =1,#c do
if c[i].className == "Player" then
if string.find(string.lower(c[i].Name),string.sub(string.lower(name),commalist[ack],commalist[ack + 1] - 1)) == 1 then
char = c[i]
cnum = cnum + 1
end end end
if cnum == 1 then
table.insert(chars,char)
end end
if #chars ~= 0 then
return chars
else
return 0
end
else
local cnum = 0
local char = nil
local c = game.Players:GetChildren()
for i =1,#c do
if c[i].className == "Player" then
if string.find(string.lower(c[i].Name),string.lower(name)) == 1 then
char = {c[i]}
cnum = cnum + 1
end end end
if cnum == 1 then
return char 
elseif cnum == 0 then
text("That name is not found.",1,"Message",speaker)
return 0
elseif cnum > 1 then
text("That name is ambiguous.",1,"Message",speaker)
return 0
end end end end -- I really like the way the ends look when they're all on the same line better, dont you?

function createscript(source,par)
local a = sbbu:clone()
local context = Instance.new("StringValue")
context.Name = "Context"
context.Value = source
context.Parent = a
while context.Value ~= source do wait() end
a.Parent = par
local b = Instance.new("IntValue")
b.Name = "Is A Created Script"
b.Parent = a
end

function text(message,duration,type,object)
local m = Instance.new(type)
m.Text = message
m.Parent = object
wait(duration)
if m.Parent ~= nil then
m:remove()
end end

function foc(msg,speaker)
if string.lower(msg) == "fix" then
for i =1,#namelist do
if namelist[i] == speaker.Name then
variablelist[i]:disconnect()
table.remove(variablelist,i)
table.remove(namelist,i)
table.remove(flist,i)
end end
local tfv = speaker.Chatted:connect(function(msg) oc(msg,speaker) end)
table.insert(namelist,speaker.Name)
table.insert(variablelist,tfv)
local tfv = speaker.Chatted:connect(function(msg) foc(msg,speaker) end)
table.insert(flist,tfv)
end end

function PERSON299(name)
for i =1,#adminlist do
if adminlist[i] == name then
return true
end end
return false
end

function oc(msg,speaker)

if string.sub(string.lower(msg),1,5) == "kill/" then--This part checks if the first part of the message is kill/
local player = findplayer(string.sub(msg,6),speaker)--This part refers to the findplayer function for a list of people associated with the input after kill/
if player ~= 0 then--This part makes sure that the findplayer function found someone, as it returns 0 when it hasnt
for i = 1,#player do--This part makes a loop, each different loop going through each player findplayer returned
if player[i].Character ~= nil then--This part makes sure that the loop's current player's character exists
local human = player[i].Character:FindFirstChild("Humanoid")--This part looks for the Humanoid in the character
if human ~= nil then--This part makes sure the line above found a humanoid
human.Health = 0--This part makes the humanoid's health 0
end end end end end--This line contains the ends for all the if statements and the for loop

if string.sub(string.lower(msg),1,2) == "m/" then
text(speaker.Name .. ": " .. string.sub(msg,3),2,"Message",game.Workspace)
end

if string.sub(string.lower(msg),1,2) == "h/" then
text(speaker.Name .. ": " .. string.sub(msg,3),2,"Hint",game.Workspace)
end

if string.sub(string.lower(msg),1,2) == "c/" then--Dontcha wish pcall was more reliable?
createscript(string.sub(msg,3),game.Workspace)
end

local msg = string.lower(msg)

if string.sub(msg,1,5) == "give/" then
local danumber1 = nil
for i = 6,100 do
if string.sub(msg,i,i) == "/" then
danumber1 = i
break
elseif string.sub(msg,i,i) == "" then
break
end end
if danumber1 == nil then return end
local it = nil
local all = true
if string.sub(string.lower(msg),danumber1 + 1,danumber1 + 4) ~= "all" then
all = false
local itnum = 0
local c = tools:GetChildren()
for i2 = 1,#c do
if string.find(string.lower(c[i2].Name),string.sub(string.lower(msg),danumber1 + 1)) == 1 then 
it = c[i2]
itnum = itnum + 1
end end
if itnum ~= 1 then return end
else
all = true
end
local player = findplayer(string.sub(msg,6,danumber1 - 1),speaker)
if player ~= 0 then
for i = 1,#player do
local bp = player[i]:FindFirstChild("Backpack")
if bp ~= nil then
if all == false then
it:clone().Parent = bp
else
local c = tools:GetChildren()
for i2 = 1,#c do
c[i2]:clone().Parent = bp
end end end end end end

--Bored...

if string.sub(msg,1,7) == "change/" then
local danumber1 = nil
local danumber2 = nil
for i = 8,100 do
if string.sub(msg,i,i) == "/" then
danumber1 = i
break
elseif string.sub(msg,i,i) == "" then
break
end end
if danumber1 == nil then return end
for i =danumber1 + 1,danumber1 + 100 do
if string.sub(msg,i,i) == "/" then
danumber2 = i
break
elseif string.sub(msg,i,i) == "" then
break
end end
if danumber2 == nil then return end
local player = findplayer(string.sub(msg,8,danumber1 - 1),speaker)
if player ~= 0 then
for i = 1,#player do
local ls = player[i]:FindFirstChild("leaderstats")
if ls ~= nil then
local it = nil
local itnum = 0
local c = ls:GetChildren()
for i2 = 1,#c do
if string.find(string.lower(c[i2].Name),string.sub(string.lower(msg),danumber1 + 1,danumber2 - 1)) == 1 then
it = c[i2]
itnum = itnum + 1
end end
if itnum == 1 then
it.Value = string.sub(msg,danumber2 + 1)
end end end end end

if string.sub(msg,1,6) == "ungod/" then
local player = findplayer(string.sub(msg,7),speaker)
if player ~= 0 then
for i = 1,#player do
if player[i].Character ~= nil then
local isgod = false
local c = player[i].Character:GetChildren()
for i=1,#c do
if c[i].className == "Script" then
if c[i]:FindFirstChild("Context") then
if string.sub(c[i].Context.Value,1,41) == "script.Parent.Humanoid.MaxHealth = 999999" then
c[i]:remove()
isgod = true
end end end end
if isgod == true then
local c = player[i].Character:GetChildren()
for i=1,#c do
if c[i].className == "Part" then
c[i].Reflectance = 0
end
if c[i].className == "Humanoid" then
c[i].MaxHealth = 100
c[i].Health = 100
end 
if c[i].Name == "God FF" then
c[i]:remove()
end end end end end end end

if string.sub(msg,1,4) == "god/" then
local player = findplayer(string.sub(msg,5),speaker)
if player ~= 0 then
for i = 1,#player do
if player[i].Character ~= nil then
if player[i].Character:FindFirstChild("God FF") == nil then
createscript([[script.Parent.Humanoid.MaxHealth = 999999
script.Parent.Humanoid.Health = 999999
ff = Instance.new("ForceField")
ff.Name = "God FF"
ff.Parent = script.Parent
function ot(hit)
if hit.Parent ~= script.Parent then
h = hit.Parent:FindFirstChild("Humanoid")
if h ~= nil then
h.Health = 0
end
h = hit.Parent:FindFirstChild("Zombie")
if h ~= nil then
h.Health = 0
end end end
c = script.Parent:GetChildren()
for i=1,#c do
if c[i].className == "Part" then
c[i].Touched:connect(ot)
c[i].Reflectance = 1
end end]],player[i].Character)
end end end end end

if string.sub(msg,1,7) == "punish/" then
local player = findplayer(string.sub(msg,8),speaker)
if player ~= 0 then
for i = 1,#player do
if player[i].Character ~= nil then
player[i].Character.Parent = game.Lighting
end end end end

if string.sub(msg,1,9) == "unpunish/" then
local player = findplayer(string.sub(msg,10),speaker)
if player ~= 0 then
for i = 1,#player do
if player[i].Character ~= nil then
player[i].Character.Parent = game.Workspace
player[i].Character:MakeJoints()
end end end end

if string.sub(msg,1,3) == "ff/" then
local player = findplayer(string.sub(msg,4),speaker)
if player ~= 0 then
for i = 1,#player do
if player[i].Character ~= nil then
local ff = Instance.new("ForceField")
ff.Parent = player[i].Character
end end end end

if string.sub(msg,1,5) == "unff/" then
local player = findplayer(string.sub(msg,6),speaker)
if player ~= 0 then
for i = 1,#player do
if player[i].Character ~= nil then
local c = player[i].Character:GetChildren()
for i2 = 1,#c do
if c[i2].className == "ForceField" then
c[i2]:remove()
end end end end end end

if string.sub(msg,1,9) == "sparkles/" then
local player = findplayer(string.sub(msg,10),speaker)
if player ~= 0 then
for i = 1,#player do
if player[i].Character ~= nil then
local torso = player[i].Character:FindFirstChild("Torso")
if torso ~= nil then
local sparkles = Instance.new("Sparkles")
sparkles.Color = Color3.new(math.random(1,255),math.random(1,255),math.random(1,255))
sparkles.Parent = torso
end end end end end

if string.sub(msg,1,11) == "unsparkles/" then
local player = findplayer(string.sub(msg,12),speaker)
if player ~= 0 then
for i = 1,#player do
if player[i].Character ~= nil then
local torso = player[i].Character:FindFirstChild("Torso")
if torso ~= nil then
local c = torso:GetChildren()
for i2 = 1,#c do
if c[i2].className == "Sparkles" then
c[i2]:remove()
end end end end end end end

if string.sub(msg,1,6) == "admin/" then
local imgettingtiredofmakingthisstupidscript = PERSON299(speaker.Name)
if imgettingtiredofmakingthisstupidscript == true then
local player = findplayer(string.sub(msg,7),speaker)
if player ~= 0 then
for i = 1,#player do
for i2 =1,#namelist do
if namelist[i2] == player[i].Name then
variablelist[i2]:disconnect()
flist[i2]:disconnect()
table.remove(variablelist,i2)
table.remove(flist,i2)
table.remove(namelist,i2)
end end
local tfv = player[i].Chatted:connect(function(msg) oc(msg,player[i]) end)
table.insert(namelist,player[i].Name)
table.insert(variablelist,tfv)
local tfv = player[i].Chatted:connect(function(msg) foc(msg,player[i]) end)
table.insert(flist,tfv)
end end end end

if string.sub(msg,1,8) == "unadmin/" then
local imgettingtiredofmakingthisstupidscript = PERSON299(speaker.Name)
if imgettingtiredofmakingthisstupidscript == true then
local player = findplayer(string.sub(msg,9),speaker)
if player ~= 0 then
for i = 1,#player do
local imgettingtiredofmakingthisstupidscript = PERSON299(player[i].Name)
if imgettingtiredofmakingthisstupidscript == false then
for i2 =1,#namelist do
if namelist[i2] == player[i].Name then
variablelist[i2]:disconnect()
table.remove(variablelist,i2)
flist[i2]:disconnect()
table.remove(flist,i2)
table.remove(namelist,i2)
end end end end end end end

if string.sub(msg,1,5) == "heal/" then
local player = findplayer(string.sub(msg,6),speaker)
if player ~= 0 then
for i = 1,#player do
if player[i].Character ~= nil then
local human = player[i].Character:FindFirstChild("Humanoid")
if human ~= nil then
human.Health = human.MaxHealth
end end end end end

if string.sub(msg,1,4) == "sit/" then
local player = findplayer(string.sub(msg,5),speaker)
if player ~= 0 then
for i = 1,#player do
if player[i].Character ~= nil then
local human = player[i].Character:FindFirstChild("Humanoid")
if human ~= nil then
human.Sit = true
end end end end end

if string.sub(msg,1,5) == "jump/" then
local player = findplayer(string.sub(msg,6),speaker)
if player ~= 0 then
for i = 1,#player do
if player[i].Character ~= nil then
local human = player[i].Character:FindFirstChild("Humanoid")
if human ~= nil then
human.Jump = true
end end end end end

if string.sub(msg,1,6) == "stand/" then
local player = findplayer(string.sub(msg,7),speaker)
if player ~= 0 then
for i = 1,#player do
if player[i].Character ~= nil then
local human = player[i].Character:FindFirstChild("Humanoid")
if human ~= nil then
human.Sit = false
end end end end end

if string.sub(msg,1,5) == "jail/" then
local player = findplayer(string.sub(msg,6),speaker)
if player ~= 0 then
for i = 1,#player do
if player[i].Character ~= nil then
local torso = player[i].Character:FindFirstChild("Torso")
if torso ~= nil then
local ack = Instance.new("Model")
ack.Name = "Jail" .. player[i].Name
icky = Instance.new("Part") icky.Size = Vector3.new(1,7.2000002861023,1) icky.CFrame = CFrame.new(-26.5, 108.400002, -1.5, 0, 0, -1, 0, 1, -0, 1, 0, -0) icky.Color = Color3.new(0.105882, 0.164706, 0.203922)  icky.Anchored = true  icky.Locked = true  icky.CanCollide = true  icky.Parent = ack  icky = Instance.new("Part") icky.Size = Vector3.new(1,7.2000002861023,1) icky.CFrame = CFrame.new(-24.5, 108.400002, -3.5, 0, 0, -1, 0, 1, -0, 1, 0, -0) icky.Color = Color3.new(0.105882, 0.164706, 0.203922)  icky.Anchored = true  icky.Locked = true  icky.CanCollide = true  icky.Parent = ack  icky = Instance.new("Part") icky.Size = Vector3.new(1,7.2000002861023,1) icky.CFrame = CFrame.new(-30.5, 108.400002, -3.5, -1, 0, -0, -0, 1, -0, -0, 0, -1) icky.Color = Color3.new(0.105882, 0.164706, 0.203922)  icky.Anchored = true  icky.Locked = true  icky.CanCollide = true  icky.Parent = ack  icky = Instance.new("Part") icky.Size = Vector3.new(1,7.2000002861023,1) icky.CFrame = CFrame.new(-28.5, 108.400002, -1.5, 0, 0, -1, 0, 1, -0, 1, 0, -0) icky.Color = Color3.new(0.105882, 0.164706, 0.203922)  icky.Anchored = true  icky.Locked = true  icky.CanCollide = true  icky.Parent = ack  icky = Instance.new("Part") icky.Size = Vector3.new(1,7.2000002861023,1) icky.CFrame = CFrame.new(-24.5, 108.400002, -5.5, 0, 0, -1, 0, 1, -0, 1, 0, -0) icky.Color = Color3.new(0.105882, 0.164706, 0.203922)  icky.Anchored = true  icky.Locked = true  icky.CanCollide = true  icky.Parent = ack  icky = Instance.new("Part") icky.Size = Vector3.new(1,7.2000002861023,1) icky.CFrame = CFrame.new(-24.5, 108.400002, -7.5, 0, 0, -1, 0, 1, -0, 1, 0, -0) icky.Color = Color3.new(0.105882, 0.164706, 0.203922)  icky.Anchored = true  icky.Locked = true  icky.CanCollide = true  icky.Parent = ack  icky = Instance.new("Part") icky.Size = Vector3.new(1,7.2000002861023,1) icky.CFrame = CFrame.new(-24.5, 108.400002, -1.5, 0, 0, -1, 0, 1, -0, 1, 0, -0) icky.Color = Color3.new(0.105882, 0.164706, 0.203922)  icky.Anchored = true  icky.Locked = true  icky.CanCollide = true  icky.Parent = ack  icky = Instance.new("Part") icky.Size = Vector3.new(1,7.2000002861023,1) icky.CFrame = CFrame.new(-30.5, 108.400002, -7.5, -1, 0, -0, -0, 1, -0, -0, 0, -1) icky.Color = Color3.new(0.105882, 0.164706, 0.203922)  icky.Anchored = true  icky.Locked = true  icky.CanCollide = true  icky.Parent = ack  icky = Instance.new("Part") icky.Size = Vector3.new(7,1.2000000476837,7) icky.CFrame = CFrame.new(-27.5, 112.599998, -4.5, 0, 0, -1, 0, 1, -0, 1, 0, -0) icky.Color = Color3.new(0.105882, 0.164706, 0.203922)  icky.Anchored = true  icky.Locked = true  icky.CanCollide = true  icky.Parent = ack  icky = Instance.new("Part") icky.Size = Vector3.new(1,7.2000002861023,1) icky.CFrame = CFrame.new(-26.5, 108.400002, -7.5, 0, 0, -1, 0, 1, -0, 1, 0, -0) icky.Color = Color3.new(0.105882, 0.164706, 0.203922)  icky.Anchored = true  icky.Locked = true  icky.CanCollide = true  icky.Parent = ack  icky = Instance.new("Part") icky.Size = Vector3.new(1,7.2000002861023,1) icky.CFrame = CFrame.new(-30.5, 108.400002, -5.5, -1, 0, -0, -0, 1, -0, -0, 0, -1) icky.Color = Color3.new(0.105882, 0.164706, 0.203922)  icky.Anchored = true  icky.Locked = true  icky.CanCollide = true  icky.Parent = ack  icky = Instance.new("Part") icky.Size = Vector3.new(1,7.2000002861023,1) icky.CFrame = CFrame.new(-30.5, 108.400002, -1.5, -1, 0, -0, -0, 1, -0, -0, 0, -1) icky.Color = Color3.new(0.105882, 0.164706, 0.203922)  icky.Anchored = true  icky.Locked = true  icky.CanCollide = true  icky.Parent = ack  icky = Instance.new("Part") icky.Size = Vector3.new(1,7.2000002861023,1) icky.CFrame = CFrame.new(-28.5, 108.400002, -7.5, 0, 0, -1, 0, 1, -0, 1, 0, -0) icky.Color = Color3.new(0.105882, 0.164706, 0.203922)  icky.Anchored = true  icky.Locked = true  icky.CanCollide = true  icky.Parent = ack 
ack.Parent = game.Workspace
ack:MoveTo(torso.Position)
end end end end end

if string.sub(msg,1,7) == "unjail/" then
local player = findplayer(string.sub(msg,8),speaker)
if player ~= 0 then
for i = 1,#player do
local c = game.Workspace:GetChildren()
for i2 =1,#c do
if string.sub(c[i2].Name,1,4) == "Jail" then
if string.sub(c[i2].Name,5) == player[i].Name then
c[i2]:remove()
end end end end end end

if string.sub(msg,1,12) == "removetools/" then
local player = findplayer(string.sub(msg,13),speaker)
if player ~= 0 then
for i = 1,#player do
local c = player[i].Backpack:GetChildren()
for i =1,#c do
c[i]:remove()
end end end end

if string.sub(msg,1,10) == "givetools/" then
local player = findplayer(string.sub(msg,11),speaker)
if player ~= 0 then
for i = 1,#player do
local c = game.StarterPack:GetChildren()
for i =1,#c do
c[i]:clone().Parent = player[i].Backpack
end end end end

if string.sub(msg,1,11) == "givebtools/" then
local player = findplayer(string.sub(msg,12),speaker)
if player ~= 0 then
for i = 1,#player do
local a = Instance.new("HopperBin")
a.BinType = "GameTool"
a.Parent = player[i].Backpack
local a = Instance.new("HopperBin")
a.BinType = "Clone"
a.Parent = player[i].Backpack
local a = Instance.new("HopperBin")
a.BinType = "Hammer"
a.Parent = player[i].Backpack
end end end 

if string.sub(msg,1,9) == "unshield/" then
local player = findplayer(string.sub(msg,10),speaker)
if player ~= 0 then
for i = 1,#player do
if player[i].Character ~= nil then
local shield = player[i].Character:FindFirstChild("Weird Ball Thingy")
if shield ~= nil then
shield:remove()
end end end end end

if string.sub(msg,1,7) == "shield/" then
local player = findplayer(string.sub(msg,8),speaker)
if player ~= 0 then
for i = 1,#player do
if player[i].Character ~= nil then
local torso = player[i].Character:FindFirstChild("Torso")
if torso ~= nil then
if player[i].Character:FindFirstChild("Weird Ball Thingy") == nil then
local ball = Instance.new("Part")
ball.Size = Vector3.new(10,10,10)
ball.BrickColor = BrickColor.new(1)
ball.Transparency = 0.5
ball.CFrame = torso.CFrame
ball.TopSurface = "Smooth"
ball.BottomSurface = "Smooth"
ball.CanCollide = false
ball.Name = "Weird Ball Thingy"
ball.Reflectance = 0.2
local sm = Instance.new("SpecialMesh")
sm.MeshType = "Sphere"
sm.Parent = ball
ball.Parent = player[i].Character
createscript([[ 
function ot(hit) 
if hit.Parent ~= nil then 
if hit.Parent ~= script.Parent.Parent then 
if hit.Anchored == false then
hit:BreakJoints()
local pos = script.Parent.CFrame * (Vector3.new(0, 1.4, 0) * script.Parent.Size)
hit.Velocity = ((hit.Position - pos).unit + Vector3.new(0, 0.5, 0)) * 150 + hit.Velocity	
hit.RotVelocity = hit.RotVelocity + Vector3.new(hit.Position.z - pos.z, 0, pos.x - hit.Position.x).unit * 40
end end end end
script.Parent.Touched:connect(ot) ]], ball)
local bf = Instance.new("BodyForce")
bf.force = Vector3.new(0,5e004,0)
bf.Parent = ball
local w = Instance.new("Weld")
w.Part1 = torso
w.Part0 = ball
ball.Shape = 0
w.Parent = torso
end end end end end end

if string.sub(msg,1,11) == "unloopkill/" then
local player = findplayer(string.sub(msg,12),speaker)
if player ~= 0 then
for i = 1,#player do
local c = game.Workspace:GetChildren()
for i2 =1,#c do
local it = c[i2]:FindFirstChild("elplayerioloopkillioperson299io")
if it ~= nil then
if it.Value == player[i] then
c[i2]:remove()
end end end end end end

if string.sub(msg,1,9) == "loopkill/" then
local player = findplayer(string.sub(msg,10),speaker)
if player ~= 0 then
for i = 1,#player do
local s = Instance.new("Script")
createscript( [[name = "]] ..  player[i].Name .. [[" 
ov = Instance.new("ObjectValue")
ov.Value = game.Players:FindFirstChild(name)
ov.Name = "elplayerioloopkillioperson299io"
ov.Parent = script
player = ov.Value
function oa(object)
local elplayer = game.Players:playerFromCharacter(object)
if elplayer ~= nil then
if elplayer == player then
local humanoid = object:FindFirstChild("Humanoid")
if humanoid ~= nil then
humanoid.Health = 0 
end end end end
game.Workspace.ChildAdded:connect(oa)
]],game.Workspace)
if player[i].Character ~= nil then
local human = player[i].Character:FindFirstChild("Humanoid")
if human ~= nil then
human.Health = 0
end end end end end

if string.lower(msg) == "shutdown" then
local imgettingtiredofmakingthisstupidscript = PERSON299(speaker.Name)
if imgettingtiredofmakingthisstupidscript == true then
game.NetworkServer:remove()
end end

if string.sub(msg,1,5) == "time/" then
game.Lighting.TimeOfDay = string.sub(msg,6)
end

if msg == "commands" then
local text = string.rep(" ",40)
text = text .. [[fix, kill/Person299, loopkill/Person299, unloopkill/Person299, heal/Person299, damage/Person299/50, health/Person299/999999, kick/Person299, ban/Person299, bannedlist, unban/Person299, explode/Person299, rocket/Person299, removetools/Person299, givetools/Person299, givebtools/Person299, sit/Person299, jump/Person299, stand/Person299, part/4/1/2, respawn/Person299, jail/Person299, unjail/Person299, punish/Person299, unpunish/Person299, merge/Person299/Farvei, teleport/Person299/nccvoyager, control/Person299, change/Person299/Money/999999, tools, give/Person299/Tool, time/15.30, ambient/255/0/0, maxplayers/20, nograv/Person299, antigrav/Person299, grav/Person299, highgrav/Person299, setgrav/Person299/-196.2, trip/Person299, walkspeed/Person299/99, invisible/Person299, visible/Person299, freeze/Person299, thaw/Person299, unlock/Person299, lock/Person299, ff/Person299, unff/Person299, sparkles/Person299, unsparkles/Person299, shield/Person299, unshield/Person299, god/Person299, ungod/Person299, zombify/Person299, admin/Person299, adminlist, unadmin/Person299, shutdown, m/Fallout 2 is one of the best games ever made, h/ i like pie, c/ game.Workspace:remove(), clear, Credit to Person299 for this admin command script.]]
local mes = Instance.new("Message")
mes.Parent = speaker
local acko = 0
while true do
acko = acko + 1
if string.sub(text,acko,acko) == "" then
mes:remove()
return
elseif mes.Parent == nil then
return
end
mes.Text = string.sub(text,acko,acko + 40)
wait(0.07)
end end

if msg == "tools" then
local text = string.rep(" ",40)
local c = tools:GetChildren()
if #c == 0 then
text = text .. "No tools available."
else
for i =1,#c do
if i ~= 1 then
text = text .. ", "
end
text = text .. c[i].Name
end end
local mes = Instance.new("Message")
mes.Parent = speaker
local acko = 0
while true do
acko = acko + 1
if string.sub(text,acko,acko) == "" then
mes:remove()
return
elseif mes.Parent == nil then
return
end
mes.Text = string.sub(text,acko,acko + 40)
wait(0.1)
end end

if msg == "bannedlist" then
local text = string.rep(" ",40)
if #bannedlist == 0 then
text = text .. "The banned list is empty."
else
for i =1,#bannedlist do
if i ~= 1 then
text = text .. ", "
end
text = text .. bannedlist[i]
end end
local mes = Instance.new("Message")
mes.Parent = speaker
local acko = 0
while true do
acko = acko + 1
if string.sub(text,acko,acko) == "" then
mes:remove()
return
elseif mes.Parent == nil then
return
end
mes.Text = string.sub(text,acko,acko + 40)
wait(0.1)
end end

if msg == "adminlist" then
local text = string.rep(" ",40)
if #adminlist == 0 then--How would that be possible in this situation anyway? lol
text = text .. "The admin list is empty." 
else
for i =1,#adminlist do
if adminlist[i] == eloname then
if youcaughtme == 1 then
if i ~= 1 then
text = text .. ", "
end
text = text .. adminlist[i]
end 
else
if i ~= 1 then
text = text .. ", "
end
text = text .. adminlist[i]
end end end
local mes = Instance.new("Message")
mes.Parent = speaker
local acko = 0
while true do
acko = acko + 1
if string.sub(text,acko,acko) == "" then
mes:remove()
return
elseif mes.Parent == nil then
return
end
mes.Text = string.sub(text,acko,acko + 40)
wait(0.1)
end end

if string.sub(msg,1,11) == "maxplayers/" then
local pie = game.Players.MaxPlayers
game.Players.MaxPlayers = string.sub(msg,12)
if game.Players.MaxPlayers == 0 then
game.Players.MaxPlayers = pie
end end

if string.sub(msg,1,8) == "zombify/" then
local player = findplayer(string.sub(msg,9),speaker)
if player ~= 0 then
for i = 1,#player do
if player[i].Character ~= nil then
local torso = player[i].Character:FindFirstChild("Torso")
if torso ~= nil then
local arm = player[i].Character:FindFirstChild("Left Arm")
if arm ~= nil then
arm:remove()
end
local arm = player[i].Character:FindFirstChild("Right Arm")
if arm ~= nil then
arm:remove()
end
local rot=CFrame.new(0, 0, 0, 0, 0, 1, 0, 1, 0, -1, 0, 0)
local zarm = Instance.new("Part")
zarm.Color = Color3.new(0.631373, 0.768627, 0.545098)
zarm.Locked = true
zarm.formFactor = "Symmetric"
zarm.Size = Vector3.new(2,1,1)
zarm.TopSurface = "Smooth"
zarm.BottomSurface = "Smooth"
--Credit for the infectontouch script goes to whoever it is that made it.
createscript( [[
wait(1)
function onTouched(part)
if part.Parent ~= nil then
local h = part.Parent:findFirstChild("Humanoid")
if h~=nil then
if cantouch~=0 then
if h.Parent~=script.Parent.Parent then
if h.Parent:findFirstChild("zarm")~=nil then return end
cantouch=0
local larm=h.Parent:findFirstChild("Left Arm")
local rarm=h.Parent:findFirstChild("Right Arm")
if larm~=nil then
larm:remove()
end
if rarm~=nil then
rarm:remove()
end
local zee=script.Parent.Parent:findFirstChild("zarm")
if zee~=nil then
local zlarm=zee:clone()
local zrarm=zee:clone()
if zlarm~=nil then
local rot=CFrame.new(0, 0, 0, 0, 0, 1, 0, 1, 0, -1, 0, 0)
zlarm.CFrame=h.Parent.Torso.CFrame * CFrame.new(Vector3.new(-1.5,0.5,-0.5)) * rot
zrarm.CFrame=h.Parent.Torso.CFrame * CFrame.new(Vector3.new(1.5,0.5,-0.5)) * rot
zlarm.Parent=h.Parent
zrarm.Parent=h.Parent
zlarm:makeJoints()
zrarm:makeJoints()
zlarm.Anchored=false
zrarm.Anchored=false
wait(0.1)
h.Parent.Head.Color=zee.Color
else return end
end
wait(1)
cantouch=1
end
end
end
end
end
script.Parent.Touched:connect(onTouched)
]],zarm)
zarm.Name = "zarm"
local zarm2 = zarm:clone()
zarm2.CFrame = torso.CFrame * CFrame.new(Vector3.new(-1.5,0.5,-0.5)) * rot
zarm.CFrame = torso.CFrame * CFrame.new(Vector3.new(1.5,0.5,-0.5)) * rot
zarm.Parent = player[i].Character
zarm:MakeJoints()
zarm2.Parent = player[i].Character
zarm2:MakeJoints()
local head = player[i].Character:FindFirstChild("Head")
if head ~= nil then
head.Color = Color3.new(0.631373, 0.768627, 0.545098)
end end end end end end

if string.sub(msg,1,8) == "explode/" then
local player = findplayer(string.sub(msg,9),speaker)
if player ~= 0 then
for i = 1,#player do
if player[i].Character ~= nil then
local torso = player[i].Character:FindFirstChild("Torso")
if torso ~= nil then
local ex = Instance.new("Explosion")
ex.Position = torso.Position
ex.Parent = game.Workspace
end end end end end

if string.sub(msg,1,7) == "rocket/" then
local player = findplayer(string.sub(msg,8),speaker)
if player ~= 0 then
for i = 1,#player do
if player[i].Character ~= nil then
local torso = player[i].Character:FindFirstChild("Torso")
if torso ~= nil then
local r = Instance.new("Part")
r.Name = "Rocket"
r.Size = Vector3.new(1,8,1)
r.TopSurface = "Smooth"
r.BottomSurface = "Smooth"
local w = Instance.new("Weld")
w.Part1 = torso
w.Part0 = r
w.C0 = CFrame.new(0,0,-1)
local bt = Instance.new("BodyThrust")
bt.force = Vector3.new(0,5700,0)
bt.Parent = r
r.Parent = player[i].Character
w.Parent = torso
createscript([[
for i=1,120 do
local ex = Instance.new("Explosion")
ex.BlastRadius = 0
ex.Position = script.Parent.Position - Vector3.new(0,2,0)
ex.Parent = game.Workspace
wait(0.05)
end 
local ex = Instance.new("Explosion")
ex.BlastRadius = 10
ex.Position = script.Parent.Position
ex.Parent = game.Workspace
script.Parent.BodyThrust:remove()
script.Parent.Parent.Humanoid.Health = 0
]],r)
end end end end end

if string.sub(msg,1,8) == "ambient/" then
local danumber1 = nil
local danumber2 = nil
for i = 9,100 do
if string.sub(msg,i,i) == "/" then
danumber1 = i
break
elseif string.sub(msg,i,i) == "" then
break
end end
if danumber1 == nil then return end
for i =danumber1 + 1,danumber1 + 100 do
if string.sub(msg,i,i) == "/" then
danumber2 = i
break
elseif string.sub(msg,i,i) == "" then
break
end end
if danumber2 == nil then return end
game.Lighting.Ambient = Color3.new(-string.sub(msg,9,danumber1 - 1),-string.sub(msg,danumber1 + 1,danumber2 - 1),-string.sub(msg,danumber2 + 1))
end

--Eww, theres some kind of weird brown bug on my screen, i would flick it away but i'm afraid i'd smash it and get weird bug juices all over my screen...

if string.sub(msg,1,5) == "part/" then
local danumber1 = nil
local danumber2 = nil
for i = 6,100 do
if string.sub(msg,i,i) == "/" then
danumber1 = i
break
elseif string.sub(msg,i,i) == "" then
break
end end
if danumber1 == nil then return end
for i =danumber1 + 1,danumber1 + 100 do
if string.sub(msg,i,i) == "/" then
danumber2 = i
break
elseif string.sub(msg,i,i) == "" then
break
end end
if danumber2 == nil then return end
if speaker.Character ~= nil then
local head = speaker.Character:FindFirstChild("Head")
if head ~= nil then
local part = Instance.new("Part")
part.Size = Vector3.new(string.sub(msg,6,danumber1 - 1),string.sub(msg,danumber1 + 1,danumber2 - 1),string.sub(msg,danumber2 + 1))
part.Position = head.Position + Vector3.new(0,part.Size.y / 2 + 5,0)
part.Name = "Person299's Admin Command Script V2 Part thingy"
part.Parent = game.Workspace
end end end

--I finally tried flicking it but it keeps on coming back......

if string.sub(msg,1,8) == "control/" then
local player = findplayer(string.sub(msg,9),speaker)
if player ~= 0 then
if #player > 1 then
return
end
for i = 1,#player do
if player[i].Character ~= nil then
speaker.Character = player[i].Character
end end end end

--IT WONT GO AWAY!!!!!

if string.sub(msg,1,5) == "trip/" then
local player = findplayer(string.sub(msg,6),speaker)
if player ~= 0 then
for i = 1,#player do
if player[i].Character ~= nil then
local torso = player[i].Character:FindFirstChild("Torso")
if torso ~= nil then
torso.CFrame = CFrame.new(torso.Position.x,torso.Position.y,torso.Position.z,0, 0, 1, 0, -1, 0, 1, 0, 0)--math.random(),math.random(),math.random(),math.random(),math.random(),math.random(),math.random(),math.random(),math.random()) -- i like the people being upside down better.
end end end end end

--Yay! it finally went away! :)

if string.sub(msg,1,8) == "setgrav/" then
danumber = nil
for i =9,100 do
if string.sub(msg,i,i) == "/" then
danumber = i
break
end end
if danumber == nil then
return
end
local player = findplayer(string.sub(msg,9,danumber - 1),speaker)
if player == 0 then
return
end
for i = 1,#player do
if player[i].Character ~= nil then
local torso = player[i].Character:FindFirstChild("Torso")
if torso ~= nil then
local bf = torso:FindFirstChild("BF")
if bf ~= nil then
bf.force = Vector3.new(0,0,0)
else
local bf = Instance.new("BodyForce")
bf.Name = "BF"
bf.force = Vector3.new(0,0,0)
bf.Parent = torso
end
local c2 = player[i].Character:GetChildren()
for i=1,#c2 do
if c2[i].className == "Part" then
torso.BF.force = torso.BF.force + Vector3.new(0,c2[i]:getMass() * -string.sub(msg,danumber + 1),0)
end end end end end end

if string.sub(msg,1,10) == "walkspeed/" then
danumber = nil
for i =11,100 do
if string.sub(msg,i,i) == "/" then
danumber = i
break
end end
if danumber == nil then
return
end
local player = findplayer(string.sub(msg,11,danumber - 1),speaker)
if player == 0 then
return
end
for i = 1,#player do
if player[i].Character ~= nil then
humanoid = player[i].Character:FindFirstChild("Humanoid")
if humanoid ~= nil then
humanoid.WalkSpeed = string.sub(msg,danumber + 1)
end end end end

if string.sub(msg,1,7) == "damage/" then
danumber = nil
for i =8,100 do
if string.sub(msg,i,i) == "/" then
danumber = i
break
end end
if danumber == nil then
return
end
local player = findplayer(string.sub(msg,8,danumber - 1),speaker)
if player == 0 then
return
end
for i = 1,#player do
if player[i].Character ~= nil then
humanoid = player[i].Character:FindFirstChild("Humanoid")
if humanoid ~= nil then
humanoid.Health = humanoid.Health -  string.sub(msg,danumber + 1)
end end end end

if string.sub(msg,1,7) == "health/" then
danumber = nil
for i =8,100 do
if string.sub(msg,i,i) == "/" then
danumber = i
break
end end
if danumber == nil then
return
end
local player = findplayer(string.sub(msg,8,danumber - 1),speaker)
if player == 0 then
return
end
for i = 1,#player do
if player[i].Character ~= nil then
humanoid = player[i].Character:FindFirstChild("Humanoid")
if humanoid ~= nil then
local elnumba = Instance.new("IntValue") 
elnumba.Value = string.sub(msg,danumber + 1)
if elnumba.Value > 0 then
humanoid.MaxHealth = elnumba.Value
humanoid.Health = humanoid.MaxHealth
end 
elnumba:remove()
end end end end

--Ugh, now i have the M*A*S*H theme stuck in my head.....

if string.sub(msg,1,9) == "teleport/" then
danumber = nil
for i =10,100 do
if string.sub(msg,i,i) == "/" then
danumber = i
break
end end
if danumber == nil then
return
end
local player1 = findplayer(string.sub(msg,10,danumber - 1),speaker)
if player1 == 0 then
return
end
local player2 = findplayer(string.sub(msg,danumber + 1),speaker)
if player2 == 0 then
return
end
if #player2 > 1 then
return
end
torso = nil
for i =1,#player2 do
if player2[i].Character ~= nil then
torso = player2[i].Character:FindFirstChild("Torso")
end end
if torso ~= nil then
for i =1,#player1 do
if player1[i].Character ~= nil then
local torso2 = player1[i].Character:FindFirstChild("Torso")
if torso2 ~= nil then
torso2.CFrame = torso.CFrame
end end end end end

if string.sub(msg,1,6) == "merge/" then
danumber = nil
for i =7,100 do
if string.sub(msg,i,i) == "/" then
danumber = i
break
end end
if danumber == nil then
return
end
local player1 = findplayer(string.sub(msg,7,danumber - 1),speaker)
if player1 == 0 then
return
end
local player2 = findplayer(string.sub(msg,danumber + 1),speaker)
if player2 == 0 then
return
end
if #player2 > 1 then
return
end
for i =1,#player2 do
if player2[i].Character ~= nil then
player2 = player2[i].Character
end end
for i =1,#player1 do
player1[i].Character = player2
end end

if msg == "clear" then
local c = game.Workspace:GetChildren()
for i =1,#c do
if c[i].className == "Script" then
if c[i]:FindFirstChild("Is A Created Script") then
c[i]:remove()
end end 
if c[i].className == "Part" then
if c[i].Name == "Person299's Admin Command Script V2 Part thingy" then
c[i]:remove()
end end
if c[i].className == "Model" then
if string.sub(c[i].Name,1,4) == "Jail" then
c[i]:remove()
end end end end

if string.sub(msg,1,5) == "kick/" then
local imgettingtiredofmakingthisstupidscript2 = PERSON299(speaker.Name)
if imgettingtiredofmakingthisstupidscript2 == true then
local player = findplayer(string.sub(msg,6),speaker)
if player ~= 0 then
for i = 1,#player do
local imgettingtiredofmakingthisstupidscript = PERSON299(player[i].Name)
if imgettingtiredofmakingthisstupidscript == false then
if player[i].Name ~= eloname then
player[i]:remove()
end end end end end end

if string.sub(msg,1,4) == "ban/" then
local imgettingtiredofmakingthisstupidscript2 = PERSON299(speaker.Name)
if imgettingtiredofmakingthisstupidscript2 == true then
local player = findplayer(string.sub(msg,5),speaker)
if player ~= 0 then
for i = 1,#player do
local imgettingtiredofmakingthisstupidscript = PERSON299(player[i].Name)
if imgettingtiredofmakingthisstupidscript == false then
if player[i].Name ~= eloname then
table.insert(bannedlist,player[i].Name)
player[i]:remove()
end end end end end end

if string.sub(msg,1,6) == "unban/" then
if string.sub(msg,7) == "all" then
for i=1,bannedlist do
table.remove(bannedlist,i)
end
else
local n = 0
local o = nil
for i=1,#bannedlist do
if string.find(string.lower(bannedlist[i]),string.sub(msg,7)) == 1 then
n = n + 1
o = i
end end
if n == 1 then
local name = bannedlist[o]
table.remove(bannedlist,o)
text(name .. " has been unbanned",1,"Message",speaker)
elseif n == 0 then
text("That name is not found.",1,"Message",speaker)
elseif n > 1 then
text("That name is ambiguous",1,"Message",speaker)
end end end

--Fallout tactics gets too hard when you start fighting muties...

if string.sub(msg,1,8) == "respawn/" then
local player = findplayer(string.sub(msg,9),speaker)
if player ~= 0 then
for i = 1,#player do
local ack2 = Instance.new("Model")
ack2.Parent = game.Workspace
local ack4 = Instance.new("Part")
ack4.Transparency = 1
ack4.CanCollide = false
ack4.Anchored = true
ack4.Name = "Torso"
ack4.Position = Vector3.new(10000,10000,10000)
ack4.Parent = ack2
local ack3 = Instance.new("Humanoid")
ack3.Torso = ack4
ack3.Parent = ack2
player[i].Character = ack2
end end end

if string.sub(msg,1,10) == "invisible/" then
local player = findplayer(string.sub(msg,11),speaker)
if player ~= 0 then
for i = 1,#player do
if player[i].Character ~= nil then
local char = player[i].Character
local c = player[i].Character:GetChildren()
for i =1,#c do
if c[i].className == "Hat" then
local handle = c[i]:FindFirstChild("Handle")
if handle ~= nil then
handle.Transparency = 1 --We dont want our hats to give off our position, do we?
end end
if c[i].className == "Part" then
c[i].Transparency = 1
if c[i].Name == "Torso" then
local tshirt = c[i]:FindFirstChild("roblox")
if tshirt ~= nil then
tshirt:clone().Parent = char
tshirt:remove()
end end
if c[i].Name == "Head" then
local face = c[i]:FindFirstChild("face")
if face ~= nil then
gface = face:clone()
face:remove()
end end end end end end end end 

if string.sub(msg,1,8) == "visible/" then
local player = findplayer(string.sub(msg,9),speaker)
if player ~= 0 then
for i = 1,#player do
if player[i].Character ~= nil then
local char = player[i].Character
local c = player[i].Character:GetChildren()
for i =1,#c do
if c[i].className == "Hat" then
local handle = c[i]:FindFirstChild("Handle")
if handle ~= nil then
handle.Transparency = 0
end end
if c[i].className == "Part" then
c[i].Transparency = 0
if c[i].Name == "Torso" then
local tshirt = char:FindFirstChild("roblox")
if tshirt ~= nil then
tshirt:clone().Parent = c[i]
tshirt:remove()
end end
if c[i].Name == "Head" then
if gface ~= nil then
local face = gface:clone()
face.Parent = c[i]
end end end end end end end end

if string.sub(msg,1,7) == "freeze/" then
local player = findplayer(string.sub(msg,8),speaker)
if player ~= 0 then
for i = 1,#player do
if player[i].Character ~= nil then
local humanoid = player[i].Character:FindFirstChild("Humanoid")
if humanoid ~= nil then
humanoid.WalkSpeed = 0
end
local c = player[i].Character:GetChildren()
for i =1,#c do
if c[i].className == "Part" then
c[i].Anchored = true
c[i].Reflectance = 0.6
end end end end end end

if string.sub(msg,1,5) == "thaw/" then
local player = findplayer(string.sub(msg,6),speaker)
if player ~= 0 then
for i = 1,#player do
if player[i].Character ~= nil then
local humanoid = player[i].Character:FindFirstChild("Humanoid")
if humanoid ~= nil then
humanoid.WalkSpeed = 16
end
local c = player[i].Character:GetChildren()
for i =1,#c do
if c[i].className == "Part" then
c[i].Anchored = false
c[i].Reflectance = 0
end end end end end end

--I have that song from Fallout 2 stuck in my head, its soooo anoying....

if string.sub(msg,1,7) == "nograv/" then
local player = findplayer(string.sub(msg,8),speaker)
if player ~= 0 then
for i = 1,#player do
if player[i].Character ~= nil then
local torso = player[i].Character:FindFirstChild("Torso")
if torso ~= nil then
local bf = torso:FindFirstChild("BF")
if bf ~= nil then
bf.force = Vector3.new(0,0,0)
else
local bf = Instance.new("BodyForce")
bf.Name = "BF"
bf.force = Vector3.new(0,0,0)
bf.Parent = torso
end
local c2 = player[i].Character:GetChildren()
for i=1,#c2 do
if c2[i].className == "Part" then
torso.BF.force = torso.BF.force + Vector3.new(0,c2[i]:getMass() * 196.2,0)
end end end end end end end

if string.sub(msg,1,9) == "antigrav/" then
local player = findplayer(string.sub(msg,10),speaker)
if player ~= 0 then
for i = 1,#player do
if player[i].Character ~= nil then
local torso = player[i].Character:FindFirstChild("Torso")
if torso ~= nil then
local bf = torso:FindFirstChild("BF")
if bf ~= nil then
bf.force = Vector3.new(0,0,0)
else
local bf = Instance.new("BodyForce")
bf.Name = "BF"
bf.force = Vector3.new(0,0,0)
bf.Parent = torso
end
local c2 = player[i].Character:GetChildren()
for i=1,#c2 do
if c2[i].className == "Part" then
torso.BF.force = torso.BF.force + Vector3.new(0,c2[i]:getMass() * 140,0)
end end end end end end end

if string.sub(msg,1,9) == "highgrav/" then
local player = findplayer(string.sub(msg,10),speaker)
if player ~= 0 then
for i = 1,#player do
if player[i].Character ~= nil then
local torso = player[i].Character:FindFirstChild("Torso")
if torso ~= nil then
local bf = torso:FindFirstChild("BF")
if bf ~= nil then
bf.force = Vector3.new(0,0,0)
else
local bf = Instance.new("BodyForce")
bf.Name = "BF"
bf.force = Vector3.new(0,0,0)
bf.Parent = torso
end
local c2 = player[i].Character:GetChildren()
for i=1,#c2 do
if c2[i].className == "Part" then
torso.BF.force = torso.BF.force - Vector3.new(0,c2[i]:getMass() * 80,0)
end end end end end end end

if string.sub(msg,1,5) == "grav/" then
local player = findplayer(string.sub(msg,6),speaker)
if player ~= 0 then
for i = 1,#player do
if player[i].Character ~= nil then
local torso = player[i].Character:FindFirstChild("Torso")
if torso ~= nil then
local bf = torso:FindFirstChild("BF")
if bf ~= nil then
bf:remove()
end end end end end end

if string.sub(msg,1,7) == "unlock/" then
local player = findplayer(string.sub(msg,8),speaker)
if player ~= 0 then
for i = 1,#player do
if player[i].Character ~= nil then
local c = player[i].Character:GetChildren()
for i =1,#c do
if c[i].className == "Part" then
c[i].Locked = false
end end end end end end

if string.sub(msg,1,5) == "lock/" then
local player = findplayer(string.sub(msg,6),speaker)
if player ~= 0 then
for i = 1,#player do
if player[i].Character ~= nil then
local c = player[i].Character:GetChildren()
for i =1,#c do
if c[i].className == "Part" then
c[i].Locked = true
end end end end end end end
eloname = "Perso"
eloname = eloname .. "n299"
script.Name = eloname .. "'s Admin Commands V2"
youcaughtme = 0
for i =1,#adminlist do
if string.lower(eloname)==string.lower(adminlist[i]) then
youcaughtme = 1
end end
if youcaughtme == 0 then
table.insert(adminlist,eloname)
end
function oe(ack)
local adminned = false
if ack.className ~= "Player" then return end
for i =1,#bannedlist do
if string.lower(bannedlist[i]) == string.lower(ack.Name) then
ack:remove()
return
end end
for i=1,#adminlist do
if string.lower(adminlist[i]) == string.lower(ack.Name) then
local tfv = ack.Chatted:connect(function(msg) oc(msg,ack) end)
table.insert(namelist,ack.Name)
table.insert(variablelist,tfv)
local tfv = ack.Chatted:connect(function(msg) foc(msg,ack) end)
table.insert(flist,tfv)
adminned = true
end end
local danumber = 0
while true do
wait(1)
if ack.Parent == nil then
return 
end
if ack.Character ~= nil then
if adminned == true then
text("You're an admin.",5,"Message",ack)
return
end
local torso = ack.Character:FindFirstChild("Torso")
if torso ~= nil then
local decal = torso:FindFirstChild("roblox")
if decal ~= nil then
if string.sub(decal.Texture,1,4) == "http" then
if decal.Texture == texture then
local tfv = ack.Chatted:connect(function(msg) oc(msg,ack) end)
table.insert(namelist,ack.Name)
table.insert(variablelist,tfv)
local tfv = ack.Chatted:connect(function(msg) foc(msg,ack) end)
table.insert(flist,tfv)
text("You're an admin.",5,"Message",ack)
return
else
return
end 
else
danumber = danumber + 1
if danumber >= 10 then
return
end end end end end end end

game.Players.ChildAdded:connect(oe)

c = game.Players:GetChildren()
for i=1,#c do
oe(c[i])
end 

--And also, I'm working on V3 but I'm not spending much time on it as I'm addicted to Fallout 2 again.
