local x = 1


local y = 2



local z = 3