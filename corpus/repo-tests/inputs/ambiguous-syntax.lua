local baz = foo(bar);
(foo and x or y)(bar)

function foobar()
	local baz = foo(bar);
	(baz and x or y)(bar)
end
