do
	local HitPart, HitPoint, HitNormal, HitMaterial = nil, Ray.Origin + Ray.Direction, Vector3.new(0, 1, 0), Enum.Material.Air
end