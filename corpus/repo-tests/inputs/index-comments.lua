local x = foo[
	index -- test
]

foo[
	var -- string
] = baz

local x = foo[
	x -- string
][y][z][p
-- string
]


local x = foo[index --[[comment]]]
