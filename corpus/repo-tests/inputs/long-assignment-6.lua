-- https://github.com/JohnnyMorganz/StyLua/issues/489
do
	local result = diff(
		{ test = { 1, 2, 3, 4, 5, 6, 7, 8, 9, 10 } },
		{ test = { 1, 2, 3, 4, 5, 6, 7, 8, 10, 9 } },
		options
	)
end

do
	local diff = createANewTableFromThisOne { thisIsAField = true, thisIsAnotherField = true, thisIsAFinalField = true, x = y }
end
