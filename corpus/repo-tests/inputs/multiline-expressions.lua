if someReallyLongCondition and someOtherReallyLongCondition and somethingElse and someReallyLongCondition and someOtherReallyLongCondition and somethingElse then
    print("foo")
end

foo = someReallyLongCondition * someOtherReallyLongCondition * somethingElse * someReallyLongCondition * someOtherReallyLongCondition * somethingElse

local foo = someReallyLongCondition and someOtherReallyLongCondition == foo and somethingElse and someReallyLongCondition and someOtherReallyLongCondition and somethingElse

repeat print("foo") until someReallyLongCondition and someOtherReallyLongCondition and somethingElse and someReallyLongCondition and someOtherReallyLongCondition and somethingElse

while someReallyLongCondition and someOtherReallyLongCondition and somethingElse and someReallyLongCondition and someOtherReallyLongCondition and somethingElse do
    print("foo")
end

if foo(aVeryLongValue, anotherVeryLongValue, someEvenMoreLongValues, evenMoreLongValues, whenWillTheseLongValuesEverEnd) and someOtherReallyLongCondition and somethingElse and someReallyLongCondition and someOtherReallyLongCondition and somethingElse then
    print("foo")
end

baz(first_arg___ooooooooooooooooooooooooooooooooooooooooooo, second_arg___qqqqqqqqqqqqqqqqqqqqqqqqqqqqqqqqqqqqqqqqqqq, function() if
			multiline_if___aaaaaaaaaaaaaaaaaaaaaaaaaaaaaaaaaaaaaaaaaaaaaaaaaaaaaa
			and multiline_if___bbbbbbbbbbbbbbbbbbbbbbbbbbbbbbbbbbbbbbbbbbbbbbbbbbbbb
	then
			foo()
		end
	end
)