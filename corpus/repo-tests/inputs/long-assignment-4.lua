do
	do
		local FrontDistanceX, FrontDistanceY =
			self.settings.FWsBoneLen * math.cos(math.rad(self.settings.FWsBoneAngle)),
			self.settings.FWsBoneLen * math.sin(math.rad(self.settings.FWsBoneAngle))
	end
end
