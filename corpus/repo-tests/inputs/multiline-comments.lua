checkVisitorFnArgs(
	expect,
	ast,
	{ ... },
	true --[[ isEdited ]]
)

local test   --[[foo]] = true

   --[[test]]
local x = true