-- https://github.com/JohnnyMorganz/StyLua/issues/287: whitespace around tokens causes inconsistency
local foo = {
	getTileProps = function(tile)
		local result = {
			adId = not GetFFlagLuaAppAddUniverseIdToGameImpress()         and           (tile.props.entry and tile.props.entry.adId)
				or nil,
		}
	end,
}
