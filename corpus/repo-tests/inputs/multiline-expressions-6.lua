-- https://github.com/JohnnyMorganz/StyLua/issues/432: shape was not correctly reset for the new line of hanging expression
local function test()
	return "test"
		.. "test"
		.. "test"
		.. "test"
		.. "test"
		.. "test"
		.. "test"
		.. "test"
		.. "test"
		.. "test"
		.. "test"
		.. "test"
		.. "test"
		.. "test"
		.. "test"
		.. "test"
		.. "test"
		.. "test"
		.. foo(long_function_name_aaaaaaaaaaaaaaaaaaaaaaaaaaaaaaaaa())
end
