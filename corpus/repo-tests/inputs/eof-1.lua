local x = 1



