function foo(defaultExport)
	if defaultExport == nil then
		print(
			"lazy: Expected the result of a dynamic import() call. "
				.. "Instead received: %s\n\nYour code should look like: \n  "
				-- Break up imports to avoid accidentally parsing them as dependencies.
				-- ROBLOX deviation: Lua syntax in message
				.. "local MyComponent = lazy(function() => req"
				.. "quire('script.Parent.MyComponent') end)",
			moduleObject
		)
	end
end

function bar(defaultExport)
	if defaultExport == nil then
		print(
			"lazy: Expected the result of a dynamic import() call. " ..
				"Instead received: %s\n\nYour code should look like: \n  " ..
				-- Break up imports to avoid accidentally parsing them as dependencies.
				-- ROBLOX deviation: Lua syntax in message
	      "local MyComponent = lazy(function() => req" ..
				"quire('script.Parent.MyComponent') end)",
			moduleObject
		)
	end
end