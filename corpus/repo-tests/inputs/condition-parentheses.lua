if (foo) then
	print("true")
elseif (bar) then
	print("false")
end

while (foo) do
	print("true")
end

repeat
	print("yes")
until (foo)