function foo()
	return fooooooooooooooooooo(barrr) or foooooooooooooooooooooooooooooooooooooooooooooooooooooopppo(barrrrrrrrrrrrrr)(hello) or bazzzzzzzzzzzzzzzzzz
  end

