-- https://github.com/JohnnyMorganz/StyLua/issues/431
local Packages; --[[ ROBLOX comment: must define Packages module ]]
local boo = --[[a comment]]
require(Packages.foo)
--[[another comment]];
--[[yet another comment]]
