-- https://github.com/JohnnyMorganz/StyLua/issues/405
do
	for _,v in ipairs({
		Kind.SELECTION_sET,
		Kind.DIRECTIVE,
		Kind.OEPRATION_DEFINITION,
		Kind.INLINE_FRAGMENT,
		Kind.FRAGMENT_DEFINITION,
		Kind.ARGUMENT,
	}) do
	end
end

do
	for _,v in ipairs {
		Kind.SELECTION_sET,
		Kind.DIRECTIVE,
		Kind.OEPRATION_DEFINITION,
		Kind.INLINE_FRAGMENT,
		Kind.FRAGMENT_DEFINITION,
		Kind.ARGUMENT,
	} do
	end
end

-- These cases should not hug:
do
	for _,v in ipairs({
		Kind.SELECTION_sET,
		Kind.DIRECTIVE,
		Kind.OEPRATION_DEFINITION,
		Kind.INLINE_FRAGMENT,
		Kind.FRAGMENT_DEFINITION,
		Kind.ARGUMENT,
	}) -- comment
	do
	end
end

do
	for _,v in ipairs(foo and {
		Kind.SELECTION_sET,
		Kind.DIRECTIVE,
		Kind.OEPRATION_DEFINITION,
		Kind.INLINE_FRAGMENT,
		Kind.FRAGMENT_DEFINITION,
		Kind.ARGUMENT,
	} or bar)
	do
	end
end

do
	for _,v in call(function()
		return { test, another }
	end) do
	end
end

do
	for _,v in call({
		Kind.SELECTION_sET,
		Kind.DIRECTIVE,
		Kind.OEPRATION_DEFINITION,
		Kind.INLINE_FRAGMENT,
		Kind.FRAGMENT_DEFINITION,
		Kind.ARGUMENT,
	}), anotherThing do
	end
end

do
	for _,v in call({
		Kind.SELECTION_sET,
		Kind.DIRECTIVE,
		Kind.OEPRATION_DEFINITION,
		Kind.INLINE_FRAGMENT,
		Kind.FRAGMENT_DEFINITION,
		Kind.ARGUMENT,
	}, "failure case") do
	end
end

do
	for _,v in call({
		Kind.SELECTION_sET,
		Kind.DIRECTIVE,
		Kind.OEPRATION_DEFINITION,
		Kind.INLINE_FRAGMENT,
		Kind.FRAGMENT_DEFINITION,
		Kind.ARGUMENT,
	})(true) do
	end
end

do
	for _,v in x.y.z.call({
		Kind.SELECTION_sET,
		Kind.DIRECTIVE,
		Kind.OEPRATION_DEFINITION,
		Kind.INLINE_FRAGMENT,
		Kind.FRAGMENT_DEFINITION,
		Kind.ARGUMENT,
	}) do
	end
end

do
	for _,v in foo and call({
		Kind.SELECTION_sET,
		Kind.DIRECTIVE,
		Kind.OEPRATION_DEFINITION,
		Kind.INLINE_FRAGMENT,
		Kind.FRAGMENT_DEFINITION,
		Kind.ARGUMENT,
	}) or otherCall() do
	end
end

do
	for _,v in (foo({
		Kind.SELECTION_sET,
		Kind.DIRECTIVE,
		Kind.OEPRATION_DEFINITION,
		Kind.INLINE_FRAGMENT,
		Kind.FRAGMENT_DEFINITION,
		Kind.ARGUMENT,
	}) or true) do
	end
end

do
	for _,v in "thissssssssssssssssssssssssssssssssssssssssssssssssssssssssssssssssssssssssssssssssssssssssssssssssssssssssss" do
	end
end
