local x = ~1
