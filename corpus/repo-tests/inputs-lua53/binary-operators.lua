local a = 1 & 2
local b = 1 | 2
local c = 1 << 2
local d = 1 >> 2
local e = 1 ~ 2
local f = 1 // 2
