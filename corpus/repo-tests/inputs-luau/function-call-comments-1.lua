do
	for _, foo in
		applyFoooooo(
			aaaaaaaaaaaaaaaaaaaa, --[[:: Array<aaaaaaaaaaaaaaaaa>]]
			bbbbbbbbbbbbbbbbbb --[[:: Array<bbbbbbbbbbbbbbb>]]
		) :: Array<aaaaaaaaaaaaaaaaa | bbbbbbbbbbbbbbb>
	do
	end
end
