-- https://github.com/JohnnyMorganz/StyLua/issues/351
export type ReactNode =
  React_Element<any>
  | ReactPortal
--   | ReactText
  | ReactFragment
--   | ReactProvider<any>
--   | ReactConsumer<any>
