type function Foo(x)
end

export type function Foo(x)
end
