--- https://github.com/JohnnyMorganz/StyLua/issues/828
type foo = {
	[("bar" | "baz")]: any,
}
