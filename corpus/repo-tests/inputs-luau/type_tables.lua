type PromptSettings = {
    object: string,
    action: string,
    holdDuration: number,
    keyboardKey: KeyCode,
    gamepadKey: KeyCode,
    distance: number,
    lineOfSight: boolean,
    offset: Vector2,
}

export type Sprite = {
	Image: string, ImageRectOffset: Vector2, ImageRectSize: Vector2 }
