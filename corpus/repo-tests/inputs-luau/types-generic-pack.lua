type X = {
	useMemo: <T...>(nextCreate: () -> T..., deps: Array<any> | nil) -> T...,
}
