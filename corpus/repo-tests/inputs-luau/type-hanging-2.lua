-- https://github.com/JohnnyMorganz/StyLua/issues/372
export type Visitor<KindToNode, Nodes = any> =
       EnterLeave<
               VisitFn<Nodes>
               | ShapeMap<KindToNode, <Node>(Node) -> VisitFn<Nodes, Node>>
       >
       | ShapeMap<
               KindToNode,
               <Node>(Node) -> VisitFn<Nodes, Node> | EnterLeave<VisitFn<Nodes, Node>>>
