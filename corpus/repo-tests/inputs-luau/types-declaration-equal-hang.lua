type SubscribeToMoreOptions<TData, TSubscriptionVariables, TSubscriptionData> =
	watchQueryOptionsModule.SubscribeToMoreOptions<TData, TSubscriptionVariables, TSubscriptionData>
