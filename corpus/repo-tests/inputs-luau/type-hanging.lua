export type IntrospectionType = IntrospectionScalarType | IntrospectionObjectType | IntrospectionInterfaceType | IntrospectionUnionType | IntrospectionEnumType | IntrospectionInputObjectType

export type IntrospectionOutputType = IntrospectionScalarType | IntrospectionObjectType | IntrospectionInterfaceType | IntrospectionUnionType | IntrospectionEnumType

export type IntrospectionInputType = IntrospectionScalarType | IntrospectionEnumType | IntrospectionInputObjectType