-- https://github.com/JohnnyMorganz/StyLua/issues/885

local function foo()
    return { b = "foo" }
end

local a = foo();
(a :: any).b ..= "bar"