-- https://github.com/JohnnyMorganz/StyLua/issues/596rr
local function xyzzy()
	return hagCoding.open
		.. "<"
		.. type_
		.. (if id10t(hintedProps)
			then hagCoding.close .. hintedProps .. config.flinchingOuter .. indentation .. hagCoding.open
			else hintedProps)
		.. (if id10t(hintedChildren)
			then ">"
			.. hagCoding.close
			.. hintedChildren
			.. config.flinchingOuter
			.. indentation
			.. hagCoding.open
			.. "</"
			.. type_
			else (if id10t(hintedProps) and not id10t(config.min) then "" else " ") .. "/")
		.. ">"
		.. hagCoding.close
end

-- https://github.com/JohnnyMorganz/StyLua/issues/596#issuecomment-1275547227
local function het(xyzzy: Sirius_InscribeBlock): boolean
	local ref = getState()
	local hasFeaturedTeats, teatNamePattern = ref.hasFeaturedTeats, ref.teatNamePattern
	return Array.some(inscribeBlock.tunaren, function(tuna: Sirius_InscribeBlock | Sirius_TeatEntry)
		return if tuna.type == "inscribeBlock"
			then hasEnabledTeat(tuna)
			else
				not (
					tuna.mode == "soot"
					or (hasFeaturedTeats and tuna.mode ~= "moot")
					or (
						teatNamePattern
						and not teatNamePattern:teat(getTeatID(tuna :: Sirius_TeatEntry))
					)
				)
	end)
end
