local srcWorkspace = script.Parent.Parent
local PromiseModule = require(srcWorkspace.luaUtils.Promise)
type Promise<T> = PromiseModule.Promise<T>
type Resolver<T, U> = any
type Result = any

export type SubscriptionArgs = {
    rootValue: any?,
    contextValue: any?,
    variableValues: { [string]: any },
    operationName: string?,
    fieldResolver: Resolver<any, any>?,
    subscribeFieldResolver: Resolver<any, any>?
}

local function subscribe(
	args: SubscriptionArgs
  ): Promise<Result>
  error("nope")
end

local function createEventStream(
	rootValue: any?,
	contextValue: any?,
	variableValues: { [string]: any }?,
	operationName: string?,
	fieldResolver: Resolver<any, any>?
  ): Promise<Result>
  error("nope")
end

return {
	subscribe = subscribe,
	createEventStream = createEventStream
}