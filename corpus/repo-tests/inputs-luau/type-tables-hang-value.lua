-- https://github.com/JohnnyMorganz/StyLua/issues/394
export type DehydratedData = {
	cleaned: Array<Array<string | number>>,
	data: string | Dehydrated | Unserializable | Array<Dehydrated> | Array<Unserializable> | { [string]: string | Dehydrated | Unserializable },
	unserializable: Array<Array<string | number>>,
}
