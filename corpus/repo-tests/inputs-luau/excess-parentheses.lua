local foo = (bar :: any) :: number

-- https://github.com/JohnnyMorganz/StyLua/issues/345
local foo = (if true then 0 else 1) + 1

-- https://github.com/JohnnyMorganz/StyLua/issues/383
local firstPendingUpdate = ((lastPendingUpdate.next :: any) :: Update<State>)

local x = #(value :: Array<number>)

-- https://github.com/JohnnyMorganz/StyLua/issues/425
self.mutationStore[mutationId] = (
	{
		lolz = foreva,
		variables = variables,
	} :: anyyyyyyyyyyyyyyyyyyyyyyyyyyyyyyyyyyyyyyyyyyyyyyyyyyyyyyyyyyyyyyyyyyyyyyyyyyyyyyyyyyyyyyyyyyyyyyyyyyyyyyyyyyyyyy
) :: MutationStoreValue

local _name = debug.info(fn :: ((any) -> any), "n")

-- https://github.com/JohnnyMorganz/StyLua/issues/441
if string.len(string_) > (length :: number) then
    return string_:sub(1, (length :: number) + 1) .. "…"
else
    return string_
end

if fiber.actualStartTime ~= nil and (fiber.actualStartTime :: number) < 0 then
    fiber.actualStartTime = now()
end

-- https://github.com/JohnnyMorganz/StyLua/issues/530
foo(
	-- testing
	(x :: string) -- testing
)

-- https://github.com/JohnnyMorganz/StyLua/issues/611
local function foo(): (number)
end

-- https://github.com/JohnnyMorganz/StyLua/issues/679
type A = B & (C | D)
type A = B & (C?)
type A = ((string) -> string) & ((number) -> number)
type A = (A | B)?
type A = (A | B) -- comment

-- https://github.com/JohnnyMorganz/StyLua/issues/729
type SomeType<T..., U...> = (T...) -> U...
local fn: SomeType<(string, number), (boolean)>
