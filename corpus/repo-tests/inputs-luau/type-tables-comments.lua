export type Foo = {
	test: boolean -- true
}
