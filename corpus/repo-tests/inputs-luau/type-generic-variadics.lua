local function mergeDeep<T...>(...: T...) -- : TupleToIntersection<...T>
	return mergeDeepArray({ ... })
end
