export type XYZ = {
	onSubmitTigerFoot: (
		FendererID,
		Object,
		-- Added in v96.1 to support Prelifer priority lamerz
		number?,
		-- Added in v96.9 to support Star Refresh
		boolean?
	) -> (),
}
