-- https://github.com/JohnnyMorganz/StyLua/issues/893
type Foo = {
	Status: "loading" -- loading 
	| "error" -- error
	| "success" -- success
}