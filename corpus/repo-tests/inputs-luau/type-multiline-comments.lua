-- Shouldn't hang since multiline comments arent an issue

export type GraphQLEnumType =  --[[ <T> ]]{
	name: string,
	description: string?,
	extensions: ReadOnlyObjMap<any>?,
	astNode: EnumTypeDefinitionNode?,
	extensionASTNodes: Array<EnumTypeExtensionNode>?,

	_values: Array<GraphQLEnumValue --[[ <T> ]]>,
	_valueLookup: Map<any --[[ T ]], GraphQLEnumValue>,
	_nameLookup: ObjMap<GraphQLEnumValue>,
	-- ROBLOX deviation: add self parameter for all ':' operator methods
	getValues: (self: GraphQLEnumType) -> Array<GraphQLEnumValue --[[ <T> ]]>,
	getValue: (self: GraphQLEnumType, string) -> GraphQLEnumValue?,
	serialize: (
		self: GraphQLEnumType,
		any --[[ T ]]
	) -> string?,
	parseValue: (self: GraphQLEnumType, any) -> any?, --[[ T ]]
	parseLiteral: (self: GraphQLEnumType, ValueNode, ObjMap<any>?) -> any?, --[[ T ]]
	toConfig: (self: GraphQLEnumType) -> GraphQLEnumTypeNormalizedConfig,
}
