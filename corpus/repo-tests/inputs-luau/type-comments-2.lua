-- https://github.com/JohnnyMorganz/StyLua/issues/397

--[[opening type comment]]
type Doo<
	T --[[ per-generic argument comment]]
> =
	--[[ opening RHS comment]]
	string --[[ per-RHS comment]]

type Foo<T = --[[leading]]
string
--[[trailing]]> = { baz: T, }

type Bar<T
--[[ Trailing comment ]]> = {}

-- This is a comment before
type Foo = --[[ Comment before Bar ]]
Bar<--[[ Before X ]]
X, --[[ After X ]]
--[[ Before Y ]]
Y, --[[ After Y ]]
--[[ Before Z ]]
Z
--[[ After Z ]]> -- This is a comment after

--[[comment]]
type Doo
--[[comment]]
<
--[[comment]]
T
--[[comment]]
>
--[[comment]]
=
--[[comment]]
string
--[[comment]]
