-- https://github.com/JohnnyMorganz/StyLua/issues/466
function example()
	do
		do
			self = (setmetatable(Error.new(createErrDiff(actual, expected, operator)), AssertionError) :: any) :: AssertionError
		end
	end
end
