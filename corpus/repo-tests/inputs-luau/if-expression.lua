local scale = if someReallyLongFlagName() or someOtherReallyLongFlagName() then foo else bar

local scale = if someReallyLongFlagName() or someOtherReallyLongFlagName() then foooooooooooooBarrrrrrrrr else barrrrrrrrrBazzzzzz

local scale = if someReallyLongFlagName() or someOtherReallyLongFlagName() then Vector2.new(1, 1) + someVectorOffset + someOtherVector else Vector2.new(1, 1) + someNewVectorOffset + someNewOtherVector

local scale = if someReallyReallyLongFunctionNameThatForcesTheConditionToSpanMultipleLines() and someOtherReallyLongFunctionNameThatForcesTheConditionToSpanMultipleLines() then 1 else 2

local thing = makeSomething("Foo", {
	OneChild = if someFlag() then
		makeSomething("Bar", {
			scale = 1,
		})
	else
		makeSomething("Bar", {
			scale = 2,
		}),
	TwoChild = makeSomething("Baz"),
})

local thing = makeSomething("Foo", {
	OneChild = if someFlag() then makeSomething("Bar", {
		scale = 1,
	}) else makeSomething("Bar", {
		scale = 2,
	}),
	TwoChild = makeSomething("Baz"),
})

local state = if hook ~= nil then hook.memoizedState elseif typeof(initialState) == "function" then (initialState :: (() -> S))() else initialState

local scale = if someFlag() then 1 elseif someOtherFlag() then 0.5 else 2

local thing = makeSomething("Foo", {
	OneChild = if someFlag()
		then makeSomething("Bar", {
			scale = 1,
		})
		elseif someOtherFlag() then makeSomething("Bar", {
			scale = 0.5,
		})
		else makeSomething("Bar", {
			scale = 2,
		}),
	TwoChild = makeSomething("Baz"),
})
do
	do
	  do
		do
		  console.error(
			"guitarFuzz design functions accept exactly two parameters: guiter and fuzz. %s",
			if argumentCount == 1 then "Did you forget to use the fuzz parameter?" else "Any additional parameter will be undefined."
		  )
		end
	  end
  end
end
