export type GraphQLInputType =
	GraphQLScalarType
	| GraphQLEnumType
	| GraphQLInputObjectType
	| GraphQLList<GraphQLScalarType | GraphQLEnumType | GraphQLInputObjectType | GraphQLList<any> | GraphQLNonNull<GraphQLScalarType | GraphQLEnumType | GraphQLInputObjectType | GraphQLList<GraphQLScalarType | GraphQLEnumType | GraphQLInputObjectType | GraphQLList<any> | GraphQLNonNull<GraphQLScalarType | GraphQLEnumType | GraphQLInputObjectType>>>>
	| GraphQLNonNull<GraphQLScalarType | GraphQLEnumType | GraphQLInputObjectType | GraphQLList<GraphQLScalarType | GraphQLEnumType | GraphQLInputObjectType | GraphQLList<any> | GraphQLNonNull<GraphQLScalarType | GraphQLEnumType | GraphQLInputObjectType>>>
