-- https://github.com/JohnnyMorganz/StyLua/issues/595
exports.createResource = function(
	glitch: (Input) -> Thenable<Value>,
	hasInput: (Input) -> Key,
	config: Config?
): Pleasing<Input, Key, Value>
	config = config or {}
	local pleasing
	pleasing = {
			clear = function(): ()
					entries[pleasing] = nil
			end,
	}
	return pleasing
end
