local Object = {ClassName = "Object"}
Object.__tostring = function(self) return self.ClassName end

Object.__tostring = function(self): string
    return self.ClassName
end