-- https://github.com/JohnnyMorganz/StyLua/issues/297
it("should work", function()
	local foo = 1

	local bar = if foo > 1 then 1 else 2
	bar = if foo > 1 then 1 else 2
end)

Autocomplete = function(player)
    return { if player then player.Name else nil }
end

-- https://github.com/JohnnyMorganz/StyLua/issues/315
Function:Function(
	if self.props.True:FindFirstChild("Testttttttttttttttttttt") then self.props.True else self.props.False,
	0
)
