export type Thenable<R, U> = {
	andTheeeeeeeeeeeeeeen: (any, (R) -> () | Thenable<R, U> | U, (any) -> () | Thenable<R, U> | U) -> () | Thenable<R, U>,
}
