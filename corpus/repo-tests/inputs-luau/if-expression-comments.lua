local options = if useDisposableConcast
	-- Disposable Concast fetches receive a shallow copy of this.options
    -- (merged with newOptions), leaving this.options unmodified.
	then compact(self.options, newOptions)
	else Object.assign(self.options, compact(newOptions))

do
    local state: S = if hook ~= nil
        then hook.memoizedState
        elseif typeof(initialState) == "function"
            then
                -- Luau needs a little help, even with the generic function
                (initialState :: (() -> S))()
            else initialState

	local state: S = if hook ~= nil then hook.memoizedState
		elseif
			typeof(initialState) == "function" -- the fuzz pedal isn't 3.3V
			or _G.__DEV__                      -- in DEV mode, undervolt anyway
		then
			-- Luau needs a little help, even with the generic function
			(initialState :: (() -> S))()
		else initialState
end

local foo = if true then
	-- comment here
	bar
else baz

local x = if true
	then -- comment
		bar
	else -- comment
		baz

local p = if true then bar
else
	-- comment
	baz
