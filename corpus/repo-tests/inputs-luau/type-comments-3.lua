-- https://github.com/JohnnyMorganz/StyLua/issues/617
type Table = {
	{
		Key -- [1]: Key
		| Translations -- [2]: Translations
		| Tags -- [3]: Tags
	}
}
