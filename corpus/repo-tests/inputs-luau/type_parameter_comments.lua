function foo(
	bar: number,
	baz: number -- test
): number
	print("test")
end