-- https://github.com/JohnnyMorganz/StyLua/issues/442
export type Store = EventEmitter<{
	collapseNodesByDefault: Array<any>,
	componentFilters: Array<any>,
	mutated: Array<any>, -- ROBLOX deviation: can't express jagged array types in Luau
	recordChangeDescriptions: Array<any>,
	roots: Array<any>,
	supportsNativeStyleEditor: Array<any>,
	supportsProfiling: Array<any>,
	supportsReloadAndProfile: Array<any>,
	unsupportedRendererVersionDetected: Array<any>,
}>
