-- https://github.com/JohnnyMorganz/StyLua/issues/520
do
	return if #timings <= workers
		then max
		else math.max(Array.reduce(timings, function(
			-- food
			sum,
			time_
		)
			return sum + time_
		end) / workers, max)
end
