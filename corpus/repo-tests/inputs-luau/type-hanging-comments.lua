-- https://github.com/JohnnyMorganz/StyLua/issues/378
export type KindEnum =
	"Name" |
	-- Document
	"Document"
	| "OperationDefinition"
	| "VariableDefinition"
	| "SelectionSet"
	| "Field"
	| "Argument" |
	-- Fragments
	"FragmentSpread"
	| "InlineFragment"
	| "FragmentDefinition"

-- https://github.com/JohnnyMorganz/StyLua/issues/384
export type React_AbstractComponent<Config, Instance> = {
	["$$typeof"]: number,
	render: (props: Config, ref: React_Ref<Instance>) -> React_Node,
	displayName: string?,
	defaultProps: Config?,
	name: string?,
	-- this comment causes the brace above to be misformatted: the quick fox jumps over the lazy dog foo bar baz foo bar baz
	[string]: any,
}
