local foo = bar;
(foo :: number).length = true