export type IntrospectionNamedTypeRef<
  T, -- TODO: add generic constraints and default types: IntrospectionType = IntrospectionType,
  P
> = {
  kind: any, -- deviation: add this type spec later: $PropertyType<T, 'kind'>,
  name: string,
  ofType: T -- TODO: this field is missing
}

export type ReactScopeQuery = (
	string, -- type
	{ [any]: any }, -- props
	any -- instance
) -> boolean

export type Thenable<R> = {
	andThen: <U>(
		self: Thenable<R>,
		onFulfill: (R) -> () | _Thenable<U> | U,
		onReject: (error: any) -> () | _Thenable<U> | U
	-- note: need union type packs to parse () | Thenable<U>
	) -> nil | _Thenable<U>,
}
