-- https://github.com/JohnnyMorganz/StyLua/issues/375
local x = if true
	then foo -- comment
	else nil

-- https://github.com/JohnnyMorganz/StyLua/issues/374
context:reportError(("Required input field %s.%s cannot be deprecated."):format(inputObj.name, field.name), {
	getDeprecatedNode((field :: InputField).astNode),
	if field.astNode ~= nil
			-- ROBLOX FUNTIME START: Luau
			then (field :: any).astNode.type
			-- ROBLOX FUNTIME END
			else nil,
})
