-- https://github.com/JohnnyMorganz/StyLua/issues/446
export type IntrospectionNamedTypeRef<
	T -- XYZ ABC
> = {}
