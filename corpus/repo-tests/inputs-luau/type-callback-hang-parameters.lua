export type ObservableQueryFields<TData, TVariables> = ObservableQueryPick<TData, TVariables> & {
    fetchMore: ((
        _self: any,
        fetchMoreOptions: FetchMoreQueryOptions<TVariables, TData> & FetchMoreOptions<TData, TVariables>
    ) -> Promise<ApolloQueryResult<TData>>) & ((<TData2, TVariables2>(
        _self: any,
        fetchMoreOptions: { query: (DocumentNode | TypedDocumentNode<TData, TVariables>)? } & FetchMoreQueryOptions<TVariables2, TData> & FetchMoreOptions<TData2, TVariables2>
    ) -> Promise<ApolloQueryResult<TData2>>)),
}

export type ObservableQueryFields<TData, TVariables> = ObservableQueryPick<TData, TVariables> & {
	fetchMore: ((
		_self: any,
		FetchMoreQueryOptions<TVariables, TData> & FetchMoreOptions<TData, TVariables>
	) -> Promise<ApolloQueryResult<TData>>) & ((
		-- ROBLOX deviation: dont have function generics
		{ query: (DocumentNode | TypedDocumentNode<TData, TVariables>)? } & FetchMoreQueryOptions<any, TData> & FetchMoreOptions<any, any>
	) -> Promise<ApolloQueryResult<any>>),
}

type Foo = (
	a: X & -- test
	Y
) -> string

type Foo = () -> X & -- test
Y
