local foo = {
	[ [[test]] :: test ] = true,
}

foo[ [[test]] :: test ] = false
