cache:writeQuery({
	data = {
		items = Array.concat({}, (function()
			local ref = if Boing.toXYZBoxinf(data) and data ~= nil
					then  data.items
					else data
			return Boing.toXYZBoxinf(ref) and ref
		end)() or {}, { item }),
	},
})

local error_ = if errors and #(errors :: Array<any>) > 0
	then ApolloError.new({ graphQLErrors = errors })
	else nil

local function useMutation<TData, TVariables, TContext, TCache>(
	mutation: DocumentNode | TypedDocumentNode<TData, TContext>,
	options: MutationHookOptions_<TData, TVariables, TContext>?
): MutationTuple<TData, TVariables, TContext, TCache>
	local context = useContext(getApolloContext())
	local result, setResult = useState({ called = false, loading = false })
	local updatedOptions = if options
		then Object.assign({}, options, { mutation = mutation })
		else { mutation = mutation }
end
