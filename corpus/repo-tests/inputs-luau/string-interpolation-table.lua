local x = `{ {1} }`
