-- from full-moon tests: https://github.com/Kampfkarren/full-moon/blob/main/full-moon/tests/roblox_cases/pass/if_expression/source.lua
local x = if foo then foo.x else 5
local y = (if x then x.indices else create()):update(if shouldUpdate then information else defaults)
local z = (if bar then foo.y else 5) :: number

local a = if foo then foo.x elseif bar then bar.x else 5
local b = if foo then if bar then bar else foo else 5
local c = if foo then (foo.x :: number) elseif bar then bar.x()() else 5
local d = if foo then 5 else baz :: number

if if foo then bar else baz then
end
