--!strict

type Array<T> = { [number]: T }
type Dictionary<T> = { [string]: T }

local RunService = game:GetService("RunService")

local INVALID_DUMP_VERSION = "API dump is an invalid version `%i` (expected version 1)"
local MODULE_NOT_READY_MESSAGE = "API has not been fetched yet; try using API.isReady() before calling API functions"
local CLASS_NOT_REAL_MESSAGE = "Class `%s` is not a valid Roblox class"
local API_REQUEST_FAILED_MESSAGE = "Could not get API dump: `%s`. Retrying in %i seconds."

local ApiTypes = require(script.ApiTypes)
local FetchApi = require(script.FetchApi)
local Filters = require(script.Filters)
local Util = require(script.Util)

local ReadyBindable = Instance.new("BindableEvent")

local classMap: Dictionary<ApiTypes.Class> = {}
local superClassMap: Dictionary<Array<ApiTypes.Class>> = {}

local dump: ApiTypes.API

local filterSecurity = Util.filterSecurity
local filterTags = Util.filterTags
local lookupify = Util.lookupify
local cloneMember = Util.cloneMember


local function tryAPI(): ()
	if dump then return end
	
	dump = FetchApi()
	
	if dump.Version ~= 1 then
		error(string.format(INVALID_DUMP_VERSION, dump.Version), 2)
	end
	
	for _, class in ipairs(dump.Classes) do
		classMap[class.Name] = class
	end
	
	for className in pairs(classMap) do
		local classTables = {}
		local root = className
		while classMap[root] do
			table.insert(classTables, 1, classMap[root])
			root = classMap[root].Superclass
		end
		superClassMap[className] = classTables
	end
end

local API = {}

API.readyEvent = ReadyBindable.Event
API.filters = Filters

function API.isReady()
	return not not dump
end

function API.getMembers(class: string, tagFilter: Array<string>?, securityFilter: Array<string>?): Dictionary<ApiTypes.Member>
	if not dump then
		error(MODULE_NOT_READY_MESSAGE, 2)
	end
	
	local superClasses: Array<ApiTypes.Class> = superClassMap[class]
	if not superClasses then
		error(string.format(CLASS_NOT_REAL_MESSAGE, class), 2)
	end
	
	local tagLookup: Dictionary<boolean> = lookupify(tagFilter)
	local securityLookup: Dictionary<boolean> = lookupify(securityFilter)
	
	local memberList: Dictionary<ApiTypes.Member> = {}
	for _, class in ipairs(superClasses) do
		for _, v in ipairs(class.Members) do
			if filterSecurity(v.Security, securityLookup) then continue end
			if filterTags(v.Tags, tagLookup) then continue end
			
			memberList[v.Name] = cloneMember(v)
		end
	end
	
	return memberList
end

function API.getProperties(class: string, tagFilter: Array<string>?, securityFilter: Array<string>?): Dictionary<ApiTypes.Property>
	if not dump then
		error(MODULE_NOT_READY_MESSAGE, 2)
	end
	
	local superClasses: Array<ApiTypes.Class> = superClassMap[class]
	if not superClasses then
		error(string.format(CLASS_NOT_REAL_MESSAGE, class), 2)
	end
	
	local tagLookup: Dictionary<boolean> = lookupify(tagFilter)
	local securityLookup: Dictionary<boolean> = lookupify(securityFilter)
	
	local memberList: Dictionary<ApiTypes.Property> = {}
	for _, class in ipairs(superClasses) do
		for _, v in ipairs(class.Members) do
			if v.MemberType ~= "Property" then continue end
			if filterSecurity(v.Security, securityLookup) then continue end
			if filterTags(v.Tags, tagLookup) then continue end
			
			memberList[v.Name] = cloneMember(v)
		end
	end
	
	return memberList
end


function API.getFunctions(class: string, tagFilter: Array<string>?, securityFilter: Array<string>?): Dictionary<ApiTypes.Function>
	if not dump then
		error(MODULE_NOT_READY_MESSAGE, 2)
	end
	
	local superClasses: Array<ApiTypes.Class> = superClassMap[class]
	if not superClasses then
		error(string.format(CLASS_NOT_REAL_MESSAGE, class), 2)
	end
	
	local tagLookup: Dictionary<boolean> = lookupify(tagFilter)
	local securityLookup: Dictionary<boolean> = lookupify(securityFilter)
	
	local memberList: Dictionary<ApiTypes.Function> = {}
	for _, class in ipairs(superClasses) do
		for _, v in ipairs(class.Members) do
			if v.MemberType ~= "Function" then continue end
			if filterSecurity(v.Security, securityLookup) then continue end
			if filterTags(v.Tags, tagLookup) then continue end
			
			memberList[v.Name] = cloneMember(v)
		end
	end
	
	return memberList
end

function API.getEvents(class: string, tagFilter: Array<string>?, securityFilter: Array<string>?): Dictionary<ApiTypes.Event>
	if not dump then
		error(MODULE_NOT_READY_MESSAGE, 2)
	end
	
	local superClasses: Array<ApiTypes.Class> = superClassMap[class]
	if not superClasses then
		error(string.format(CLASS_NOT_REAL_MESSAGE, class), 2)
	end
	
	local tagLookup: Dictionary<boolean> = lookupify(tagFilter)
	local securityLookup: Dictionary<boolean> = lookupify(securityFilter)
	
	local memberList: Dictionary<ApiTypes.Event> = {}
	for _, class in ipairs(superClasses) do
		for _, v in ipairs(class.Members) do
			if v.MemberType ~= "Event" then continue end
			if filterSecurity(v.Security, securityLookup) then continue end
			if filterTags(v.Tags, tagLookup) then continue end
			
			memberList[v.Name] = cloneMember(v)
		end
	end
	
	return memberList
end


function API.getCallbacks(class: string, tagFilter: Array<string>?, securityFilter: Array<string>?): Dictionary<ApiTypes.Callback>
	if not dump then
		error(MODULE_NOT_READY_MESSAGE, 2)
	end
	
	local superClasses: Array<ApiTypes.Class> = superClassMap[class]
	if not superClasses then
		error(string.format(CLASS_NOT_REAL_MESSAGE, class), 2)
	end
	
	local tagLookup: Dictionary<boolean> = lookupify(tagFilter)
	local securityLookup: Dictionary<boolean> = lookupify(securityFilter)
	
	local memberList: Dictionary<ApiTypes.Callback> = {}
	for _, class in ipairs(superClasses) do
		for _, v in ipairs(class.Members) do
			if v.MemberType ~= "Callback" then continue end
			if filterSecurity(v.Security, securityLookup) then continue end
			if filterTags(v.Tags, tagLookup) then continue end
			
			memberList[v.Name] = cloneMember(v)
		end
	end
	
	return memberList
end

function API.getSuperclasses(class: string): Array<string>
	if not dump then
		error(MODULE_NOT_READY_MESSAGE, 2)
	end
	
	local superClasses: Array<ApiTypes.Class> = superClassMap[class]
	if not superClasses then
		error(string.format(CLASS_NOT_REAL_MESSAGE, class), 2)
	end
	
	local list = {}
	for i, class in ipairs(superClasses) do
		list[i] = class.Name
	end
	
	return list
end

function API.isDeprecated(class: string, member: string?): boolean
	if not dump then
		error(MODULE_NOT_READY_MESSAGE, 2)
	end
	
	local classTable: ApiTypes.Class = classMap[class]
	if not classTable then
		error(string.format(CLASS_NOT_REAL_MESSAGE, class), 2)
	end
	
	if member then
		local members = API.getMembers(class, {"Deprecated"})
		if members[member] then
			return true
		else
			return false
		end
	else
		local tags: typeof(classTable.Tags) = classTable.Tags
		if tags then
			if table.find(tags, "Deprecated") then
				return true
			end
		end
	end
	return false
end

function API.isService(class: string): boolean
	if not dump then
		error(MODULE_NOT_READY_MESSAGE, 2)
	end
	
	local classTable: ApiTypes.Class = classMap[class]
	if not classTable then
		error(string.format(CLASS_NOT_REAL_MESSAGE, class), 2)
	end
	
	local tags: typeof(classTable.Tags) = classTable.Tags
	if tags then
		if table.find(tags, "Service") then
			return true
		end
	end
	return false
end

function API.getClasses(filter: Array<string>?): Array<string>
	if not dump then
		error(MODULE_NOT_READY_MESSAGE, 2)
	end
	local classList: Array<string> = {}
	
	local tagLookup: Dictionary<boolean> = lookupify(filter)
	
	local classCount = 1
	
	for _, v in ipairs(dump.Classes) do
		if filterTags(v.Tags, tagLookup) then continue end
		
		classList[classCount] = v.Name
		classCount += 1
	end
	
	return classList
end

function API.getEnums(filter: Array<string>?): Array<string>
	if not dump then
		error(MODULE_NOT_READY_MESSAGE, 2)
	end
	local enumList: Array<string> = {}
	
	local tagLookup: Dictionary<boolean> = lookupify(filter)
	
	local enumCount = 1
	
	for _, v in ipairs(dump.Enums) do
		if filterTags(v.Tags, tagLookup) then continue end
		
		enumList[enumCount] = v.Name
		enumCount += 1
	end
	
	return enumList
end

export type Member = ApiTypes.Member
export type Property = ApiTypes.Property
export type Function = ApiTypes.Function
export type Event = ApiTypes.Event
export type Callback = ApiTypes.Callback

return API
