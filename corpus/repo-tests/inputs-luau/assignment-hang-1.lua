-- https://github.com/JohnnyMorganz/StyLua/issues/439
exports.separateDisplayNameAndHOCs =
	function(displayName: string | nil, type_: ElementType): (string | nil, Array<string> | nil)
		if displayName == nil then
			return nil, nil
		end

		local hocDisplayNames: Array<string>? = nil

		if
			type_ == ElementTypeClass
			or type_ == ElementTypeForwardRef
			or type_ == ElementTypeFunction
			or type_ == ElementTypeMemo
		then
			-- ROBLOX deviation: use match instead of indexOf
			if (displayName :: string):match("%(") then
				-- ROBLOX deviation: use gmatch instead of /[^()]+/g
				local matches = (displayName :: string):gmatch("[^()]+")
				local nextMatch = matches()
				if nextMatch then
					displayName = nextMatch
					hocDisplayNames = {}
					while nextMatch :: any ~= nil do
						-- TODO: https://github.com/Kampfkarren/full-moon/issues/140
						-- Including the following statements cause a stack overflow:
						-- nextMatch = matches()
						-- table.insert(hocDisplayNames :: Array<string>, nextMatch)
					end
				end
			end
		end
	end
