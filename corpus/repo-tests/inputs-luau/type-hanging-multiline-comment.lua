export type CoverageReporterWithOptions<K> =
	Array<string | Object> --[[ [K, Partial<ReportOptions[K]>] ]]
	| nil

export type CoverageReporterWithOptions<K> =
	Array<string | Object> --[[ [K, Partial<ReportOptions[K]>] ]]
	& nil
