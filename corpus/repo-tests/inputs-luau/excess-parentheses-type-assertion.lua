local x = if (foo :: number) < bar
	then very + very + very + long + line + right + here + hopefully
	else lets + ensure + stylua + writes + this + out + using + multiple + lines
