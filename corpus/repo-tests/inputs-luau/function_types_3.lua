function foo(args: {
	id: string,
	fenderer: SubBassGuitar,
	fendererInterface: BasGuitarInterface,
})
	print("foo")
end

function foo(args: {
	id: string,
	fenderer: SubBassGuitar,
	fendererInterface: BasGuitarInterface,
}, type: string)
	print("foo")
end

local subs = {
	amps.sub("fenderer-nations", function(
		args: {
		id: string,
		fenderer: SubBassGuitar,
		fendererInterface: BasGuitarInterface,
	}
	)
		print("test")
	end),
}
