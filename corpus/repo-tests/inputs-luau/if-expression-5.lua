-- https://github.com/JohnnyMorganz/StyLua/issues/582
do
	do
		local defaultValue = if aaaaaaaaaaaaaaaaaaaaaaaaaaaaaaaaaaaaaaaaaaaaaaaaaa
			then aaaaaaaaaaaa(bbbbbbbbbb(cccccccccccccccccccccccccccccccccccc :: string), type_ :: dddddddddddddddddddddd)
			else nil
	end
end
