function foo(): (
	nil -- Some comment
)
	return nil
end

type X = (
	string,
	number -- testing
) -> (
	number,
	string -- testing
)
