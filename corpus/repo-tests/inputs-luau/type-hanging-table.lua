-- https://github.com/JohnnyMorganz/StyLua/issues/394#issuecomment-1054865101
type QueryManagerPrivate<TStore> = QueryManager<TStore> & {
	inFlightLinkObservables: Map<DocumentNode, Map<string, Observable<FetchResult<{ [string]: any }, Record<string, any>, Record<string,any>>>>>,
}
