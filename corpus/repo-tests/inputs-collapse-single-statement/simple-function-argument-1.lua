local comment_parts = vim.tbl_filter(function(x)
   return x ~= ''
end, vim.split(commentstring, '%s', true))
