Helpers.expect.match = MiniTest.new_expectation('string matching', function(str, pattern)
  return str:find(pattern) ~= nil
end, function(str, pattern)
  return string.format('Pattern: %s\nObserved string: %s', vim.inspect(pattern), str)
end)
