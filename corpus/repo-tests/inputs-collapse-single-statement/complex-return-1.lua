local x = function(body, opts)
    return {
      top = body.top - 1,
      bottom = body.bottom + 1,
      indent = math.max(H.get_line_indent(body.top - 1, opts), H.get_line_indent(body.bottom + 1, opts)),
    }
end
