if x == true then
	return
end
