local x = function()
	return (function()
		local z = 3 + 4
		return complexCall(z)
	end)
end

local x = function()
	return (function()
		local z = 3 + 4
		return complexCall(z)
	end)()
end

local x = function()
	return not (function()
		local z = 3 + 4
		return complexCall(z)
	end)()
end

local x = function()
	return { function() return true end }
end

local x = function()
	return { [(function() return false end)()] = true }
end

local x = function()
	return call "string"
end

local x = function()
	return call { function() end }
end

local x = function()
	(function() return x[5] end)[10] = 5
end

local x = function()
	y[function() end] = z
end

local x = function()
	break
end
