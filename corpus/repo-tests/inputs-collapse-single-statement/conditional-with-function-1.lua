-- https://github.com/JohnnyMorganz/StyLua/issues/898

if bar then
	return function()
		foo()
	end
end

if bar then
	return Array.filter({}, function()
		return true
	end)
end
