local x = function()
	call("testing")
end
