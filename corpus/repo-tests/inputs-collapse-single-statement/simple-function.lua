function foo()
    return bar
end

