local get_match = function(hl_group)
  return vim.tbl_filter(function(x)
    return x.group == hl_group
  end, child.fn.getmatches())
end
