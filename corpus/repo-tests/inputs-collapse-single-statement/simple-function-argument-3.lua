local _, tag_section = toc_entry.parent:has_descendant(function(x)
  return type(x) == 'table' and x.type == 'section' and x.info.id == '@tag'
end)
