local x = function()
	local x = 1
end
