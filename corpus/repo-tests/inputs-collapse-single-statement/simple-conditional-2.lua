-- https://github.com/JohnnyMorganz/StyLua/issues/744

if tabnr ~= finaltab then

	stack:push('%T')
end
