for i = 1, 10 do
	if true then
		return
	end
end
