if child == nil then
    child, index = index, #self + 1
end
