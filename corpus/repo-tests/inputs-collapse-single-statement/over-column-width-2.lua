T['stat_summary()']['works'] = function()
	eq(stat_summary(10, 4, 3, 2, 1), { minimum = 1, mean = 4, median = 3, maximum = 10, n = 5, sd = math.sqrt(50 / 4) })
end
