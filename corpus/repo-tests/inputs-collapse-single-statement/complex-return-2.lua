function H.is_item(x)
  return type(x) == 'table'
    and H.is_fun_or_string(x['action'], false)
    and type(x['name']) == 'string'
    and type(x['section']) == 'string'
end
