-- https://github.com/JohnnyMorganz/StyLua/issues/704
vim.api.nvim_create_user_command('F', function(options) require('greeeeeeeeeeeeeeeeeeeeep').by_fixed(options.args) end, {
	nargs = '+',
	complete = 'file',
  })
