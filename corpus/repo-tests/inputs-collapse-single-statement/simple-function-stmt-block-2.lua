local x = function()
	x = 1
end
