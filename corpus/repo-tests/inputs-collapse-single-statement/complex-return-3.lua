function H.get_unsaved_listed_buffers()
  return vim.tbl_filter(function(buf_id)
    return vim.api.nvim_buf_get_option(buf_id, 'modified') and vim.api.nvim_buf_get_option(buf_id, 'buflisted')
  end, vim.api.nvim_list_bufs())
end
