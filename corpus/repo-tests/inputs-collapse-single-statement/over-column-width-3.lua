-- https://github.com/JohnnyMorganz/StyLua/issues/619
local a = {
	aa = function() return "xxxxxxxxxxxxxxxxxxxxxxxxxxxxxxxxxxxxxxxxxxxxxxxxxxxxxxxxxxxxxxxxxxxxxxxxxxxxxxxxxxxxxxxxxxxxxxxxxx" end,
}
