local erroring = function(x)
  return function()
    error(x, 0)
  end
end
