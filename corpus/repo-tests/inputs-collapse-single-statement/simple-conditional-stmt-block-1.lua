if true then
	call("hello")
end
