function MiniCompletion.default_process_items(items, base)
  return H.default_config.lsp_completion.process_items(items, base)
end
