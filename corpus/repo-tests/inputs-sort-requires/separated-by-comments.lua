-- Services
local C = require("C")
local B = require("B")
local A = require("A")

-- Packages
local Z = require("Z")
local Y = require("Y")
local X = require("X")
