-- Requires should be treated as a separate group to services
local ReplicatedStorage = game:GetService("ReplicatedStorage")
local CollectionService = game:GetService("CollectionService")
local C = require("C")
local A = require("A")
