local ReplicatedStorage = game:GetService("ReplicatedStorage")
local CollectionService = game:GetService("CollectionService")
