-- stylua: ignore
local c   = require("c")
local b = require("b")
local a = require("a")

local c = require("c")
-- stylua: ignore
local b   = require("b")
local a = require("a")

local c = require("c")
local b = require("b")
-- stylua: ignore
local a   = require("a")
