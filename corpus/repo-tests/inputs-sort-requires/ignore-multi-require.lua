local c = require("c")
local b, a = require("b"), require("a")
