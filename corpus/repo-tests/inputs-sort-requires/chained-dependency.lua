local holder = script.Parent
local modules = holder.Modules
local cee = require(modules.Script)
local bee = require(modules.BeeMovie)
local aa = require(modules.Test)
print("hello!")
