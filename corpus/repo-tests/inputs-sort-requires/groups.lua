local ReplicatedStorage = game:GetService("ReplicatedStorage")
local mainB = require(ReplicatedStorage.B)
local mainA = require(ReplicatedStorage.A)

local Packages = ReplicatedStorage.Packages
local Z = require(Packages.Z)
local Y = require(Packages.Y)
local X = require(Packages.X)

local Modules = ReplicatedStorage.Modules
local C = require(Modules.C)
local B = require(Modules.B)
local A = require(Modules.A)
