local bee = require("b")
local ah = require("a")

print("hello world")
