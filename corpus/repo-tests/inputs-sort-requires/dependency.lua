local parent = script.Parent
local x = foo()
local bee = require("aaa")
local cee = require(parent.Cee)
local aaa = require(parent.Script)

print("hello world")
